"""G7 - the class forms (operators.py, quantifiers.py, groups.py, assertions.py).  Each constructor is verified with
its template base-class constructor inlined (lambdas beta-reduced); the post-condition says the class form IS the
method form (C02's 'three spellings'): same text, same exceptions under the same conditions."""
C = {}
PRE = "pregex.core.pre.Pregex."
from . import pre_quant, pre_ops, pre_groups

for tmpl in ("pregex.core.quantifiers.__Quantifier", "pregex.core.operators.__Operator", "pregex.core.groups.__Group",
             "pregex.core.assertions.__Assertion", "pregex.core.assertions.__Anchor", "pregex.core.assertions.__Lookaround"):
    C[tmpl + ".__init__"] = dict(inline=True)

C[PRE + "__init__"] = dict(
    params={"self": "newobj", "pattern": ["str", "other", "int"], "escape": "bool"},
    raises={"InvalidArgumentTypeException": "not STRV(pattern)"},
    ensures="SAME_TEXT(TEXT(self), ESC(pattern) if escape else pattern) and COMPILED_FIELD(self) is None "
            "and INFERRED(self)",
    returns="initpregex", frame=["self._Pregex__pattern", "self._Pregex__type", "self._Pregex__repeatable", "self._Pregex__compiled"])
C[PRE + "__infer_type"] = dict(params={"pattern": "text"}, raises={}, returns="infer", assumed=True)
C[PRE + "__escape"] = dict(params={"pattern": "text"}, raises={}, returns="expr", result="ESC(pattern)", assumed=True)


def wrap(qual, meth, params, margs, table):
    """class form `qual` of method `meth` applied to TP(pre) with arguments margs"""
    mc = table[PRE + meth]
    raises = {}
    for exc, cond in mc.get("raises", {}).items():
        raises[exc] = f"not BADPRE(pre) and CALLEE_RAISES('{meth}', '{exc}', TP(pre){''.join(', ' + a for a in margs)})"
    t = raises.get("InvalidArgumentTypeException")
    raises["InvalidArgumentTypeException"] = "BADPRE(pre)" + (f" or ({t})" if t else "")
    C[qual + ".__init__"] = dict(
        params=params, raises=raises,
        ensures=f"SAME_TEXT(TEXT(self), TEXT(METHOD(TP(pre), '{meth}'{''.join(', ' + a for a in margs)})))",
        returns="wrapped_init", value=f"METHOD(TP(pre), '{meth}'{''.join(', ' + a for a in margs)})", frame=["self._Pregex__pattern", "self._Pregex__type", "self._Pregex__repeatable", "self._Pregex__compiled"])


Q = "pregex.core.quantifiers."
NP = {"self": "newobj", "pre": "pre"}
wrap(Q + "Optional", "optional", {**NP, "is_greedy": "bool"}, ["is_greedy"], pre_quant.C)
wrap(Q + "Indefinite", "indefinite", {**NP, "is_greedy": "bool"}, ["is_greedy"], pre_quant.C)
wrap(Q + "OneOrMore", "one_or_more", {**NP, "is_greedy": "bool"}, ["is_greedy"], pre_quant.C)
wrap(Q + "Exactly", "exactly", {**NP, "n": "dyn"}, ["n"], pre_quant.C)
wrap(Q + "AtLeast", "at_least", {**NP, "n": "dyn", "is_greedy": "bool"}, ["n", "is_greedy"], pre_quant.C)
wrap(Q + "AtMost", "at_most", {**NP, "n": "dyn", "is_greedy": "bool"}, ["n", "is_greedy"], pre_quant.C)
wrap(Q + "AtLeastAtMost", "at_least_at_most", {**NP, "n": "dyn", "m": "dyn", "is_greedy": "bool"}, ["n", "m", "is_greedy"], pre_quant.C)

G = "pregex.core.groups."
PRE_G = pre_groups.GSELF + ["str0", "str1", "str2", "other"]
wrap(G + "Capture", "capture", {"self": "newobj", "pre": PRE_G, "name": "optname"}, ["name"], pre_groups.C)
wrap(G + "Group", "group", {"self": "newobj", "pre": PRE_G, "is_case_insensitive": "bool"}, ["is_case_insensitive"], pre_groups.C)

A = "pregex.core.assertions."
for cls, meth in (("MatchAtStart", "match_at_start"), ("MatchAtEnd", "match_at_end"), ("MatchAtLineStart", "match_at_line_start"),
                  ("MatchAtLineEnd", "match_at_line_end")):
    wrap(A + cls, meth, dict(NP), [], pre_ops.C)
for cls, txt in (("WordBoundary", "\\\\b"), ("NonWordBoundary", "\\\\B")):
    C[A + cls + ".__init__"] = dict(params={"self": "newobj"}, raises={}, ensures=f"SAME_TREE(TEXT(self), '{txt}')",
                                    returns="wrapped_init", value=f"'{txt}'", frame=["self._Pregex__pattern", "self._Pregex__type", "self._Pregex__repeatable", "self._Pregex__compiled"])

FR = ["self._Pregex__pattern", "self._Pregex__type", "self._Pregex__repeatable", "self._Pregex__compiled"]
O = "pregex.core.operators."
for cls, meth in (("Concat", "concat"), ("Either", "either")):
    C[O + cls + ".__init__"] = dict(
        params={"self": "newobj", "pres": "varpre"},
        raises={"InvalidArgumentTypeException": f"len(pres) > 0 and FOLD_EXC(pres, '{meth}') == 'InvalidArgumentTypeException'"},
        ensures=f"SAME_TEXT(TEXT(self), FOLD(pres, '{meth}'))", returns="wrapped_init", value=f"FOLDV(pres, '{meth}')", frame=FR)
C[O + "Enclose.__init__"] = dict(
    params={"self": "newobj", "pre": ["Other", "Alternation", "Empty", "Quantifier", "str0", "str2", "other"],
            "enclosing": "varpre_small"},
    raises={"InvalidArgumentTypeException": "FOLD_EXC((pre,) + enclosing, 'enclose') == 'InvalidArgumentTypeException'"},
    ensures="SAME_TEXT(TEXT(self), FOLD((pre,) + enclosing, 'enclose'))", returns="wrapped_init",
    value="FOLDV((pre,) + enclosing, 'enclose')", frame=FR)

for cls, meth in (("FollowedBy", "followed_by"), ("PrecededBy", "preceded_by"), ("EnclosedBy", "enclosed_by"),
                  ("NotFollowedBy", "not_followed_by"), ("NotPrecededBy", "not_preceded_by"), ("NotEnclosedBy", "not_enclosed_by")):
    raises = {"NotEnoughArgumentsException": "len(assertions) == 0"}
    for exc in pre_ops.C[PRE + meth]["raises"]:
        raises[exc] = f"len(assertions) > 0 and FOLD_EXC((match,) + assertions, '{meth}') == '{exc}'"
    C[A + cls + ".__init__"] = dict(
        params={"self": "newobj", "match": ["Other", "Alternation", "Empty", "Assertion", "str0", "str2", "other"],
                "assertions": "varpre_small"}, raises=raises,
        ensures=f"SAME_TEXT(TEXT(self), FOLD((match,) + assertions, '{meth}'))", returns="wrapped_init",
        value=f"FOLDV((match,) + assertions, '{meth}')", frame=FR)

# ---- Backreference / Conditional -------------------------------------------------------------------------------
C[G + "Backreference.__init__"] = dict(
    params={"self": "newobj", "ref": "dyn"},
    raises={"InvalidArgumentTypeException": "BOOLV(ref) or (not INT(ref) and not STRV(ref))",
            "InvalidArgumentValueException": "INT(ref) and (ref < 1 or ref > 99)",
            "InvalidCapturingGroupNameException": "STRV(ref) and not BREFNAME(ref)"},
    ensures="SAME_TEXT(TEXT(self), ('\\\\' + DECS(ref)) if INT(ref) else ('(?P=' + ref + ')'))",
    returns="none", frame=FR)

REDUCED = ["Other", "Alternation", "Empty", "Token", "str0", "str1", "str2", "other"]
C[G + "Conditional.__init__"] = dict(
    params={"self": "newobj", "name": "name", "pre1": REDUCED, "pre2": REDUCED + ["none"]},
    raises={"InvalidCapturingGroupNameException": "STRV(name) and not VALIDNAME(name)",
            "InvalidArgumentTypeException": "not STRV(name) or (VALIDNAME(name) and (BADPRE(pre1) or (not NONE(pre2) and BADPRE(pre2))))"},
    ensures="SAME_TREE(TEXT(self), '(?(' + name + ')' + G(pre1) + ('' if NONE(pre2) else '|' + G(pre2)) + ')')",
    returns="none", frame=FR)
