"""G9 - the four parametrised class constructors (classes.py): argument validation for ALL arguments (any string, any
Pregex text, other objects) and the exact bracket text handed to __Class.__init__ (ghost CLASSARG).  What that text means as
a set of characters is __Class.__process's business (assumed here; bounded stand-ins B2/B3 and the interval core G8)."""
K = "pregex.core.classes."
FRC = ["self._Pregex__pattern", "self._Pregex__type", "self._Pregex__repeatable", "self._Pregex__compiled",
       "self._Class__is_negated", "self._Class__verbose"]
C = {}

C[K + "__Class._to_char"] = dict(inline=True)
C[K + "__Class.__init__"] = dict(
    params={"self": "newobj", "pattern": "text", "is_negated": "bool", "simplify_word": "bool"}, raises={},
    returns="class_init", assumed=True)

CHARLIKE = ["str0", "str1", "str2", "Token", "Other", "Class", "Empty", "other", "none", "int"]

for cls, neg in (("AnyBetween", False), ("AnyButBetween", True)):
    C[K + cls + ".__init__"] = dict(
        params={"self": "newobj", "start": CHARLIKE, "end": CHARLIKE},
        raises={"InvalidArgumentTypeException": "NONE(TOCHAR(start)) or NONE(TOCHAR(end))",
                "InvalidRangeException": "not NONE(TOCHAR(start)) and not NONE(TOCHAR(end)) and ORD(TOCHAR(start)) >= ORD(TOCHAR(end))"},
        ensures=f"SAME_TEXT(CLASSARG(self), '[{'^' if neg else ''}' + CESC(TOCHAR(start)) + '-' + CESC(TOCHAR(end)) + ']') "
                f"and NEGATED(self) == {neg}",
        returns="none", frame=FRC)

for cls, neg in (("AnyFrom", False), ("AnyButFrom", True)):
    C[K + cls + ".__init__"] = dict(
        params={"self": "newobj", "chars": "varchars"},
        raises={"NotEnoughArgumentsException": "len(chars) == 0",
                "InvalidArgumentTypeException": "len(chars) > 0 and not ALLCHARS(chars)"},
        ensures=f"SAME_TEXT(CLASSARG(self), '[{'^' if neg else ''}' + JOINCESC(chars) + ']') and NEGATED(self) == {neg}",
        returns="none", frame=FRC)
