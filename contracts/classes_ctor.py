"""G9 - the four parametrised class constructors (classes.py): argument validation for ALL arguments (any string, any
Pregex text, other objects) and the exact bracket text handed to __Class.__init__ (ghost CLASSARG).  What that text means as
a set of characters is __Class.__process's business (assumed here; bounded stand-ins B2/B3 and the interval core G8)."""
K = "pregex.core.classes."
FRC = ["self._Pregex__pattern", "self._Pregex__type", "self._Pregex__repeatable", "self._Pregex__compiled",
       "self._Class__is_negated", "self._Class__verbose"]
C = {}

C[K + "__Class._to_char"] = dict(inline=True)
# __Class.__init__: flag and verbose text as __process gives them (the maker used at call sites also records the ghost CLASSARG)
C[K + "__Class.__init__"] = dict(
    params={"self": "newobj", "pattern": "bracket", "is_negated": "bool", "simplify_word": "bool"}, raises={},
    ensures="NEGATED(self) == is_negated and (SAME_TEXT(VERBOSE(self), '.') if pattern == '.' else VEQ(TV(VERBOSE(self)), TV(pattern)))",
    returns="class_init", frame=FRC,
    # shape of the text (all callers inside the library satisfy it: G9's CESC, the named classes' literals): a bracket text whose
    # only escapes are \\ \^ \[ \] \- \/ - an item such as \n (backslash, letter) would be read as a run of two characters
    requires_rt="CLASS_TEXT_WF(pattern)")

CHARLIKE = ["str0", "str1", "str2", "Token", "Other", "Class", "Empty", "other", "none", "int"]

for cls, neg in (("AnyBetween", False), ("AnyButBetween", True)):
    C[K + cls + ".__init__"] = dict(
        params={"self": "newobj", "start": CHARLIKE, "end": CHARLIKE},
        raises={"InvalidArgumentTypeException": "NONE(TOCHAR(start)) or NONE(TOCHAR(end))",
                "InvalidRangeException": "not NONE(TOCHAR(start)) and not NONE(TOCHAR(end)) and ORD(TOCHAR(start)) >= ORD(TOCHAR(end))"},
        ensures=f"SAME_TEXT(CLASSARG(self), '[{'^' if neg else ''}' + CESC(TOCHAR(start)) + '-' + CESC(TOCHAR(end)) + ']') "
                f"and NEGATED(self) == {neg}",
        returns="class_ctor", value=f"'[{'^' if neg else ''}' + CESC(TOCHAR(start)) + '-' + CESC(TOCHAR(end)) + ']'", neg=neg, frame=FRC)

for cls, neg in (("AnyFrom", False), ("AnyButFrom", True)):
    C[K + cls + ".__init__"] = dict(
        params={"self": "newobj", "chars": "varchars"},
        raises={"NotEnoughArgumentsException": "len(chars) == 0",
                "InvalidArgumentTypeException": "len(chars) > 0 and not ALLCHARS(chars)"},
        ensures=f"SAME_TEXT(CLASSARG(self), '[{'^' if neg else ''}' + JOINCESC(chars) + ']') and NEGATED(self) == {neg}",
        returns="class_ctor", value=f"'[{'^' if neg else ''}' + JOINCESC(chars) + ']'", neg=neg, frame=FRC)


# ---- G9b: the operator methods of the class layer, relative to the assumed core operations __or / __sub -----------------
# (what the core computes is C07's interval core G8 + the bounded stand-in B3; here: which operands reach it, in which order,
# after which conversion, and which exception is raised when they cannot)
M = K + "__Class."
OPERAND = ["classobj:Class", "classobj:Token", "str0", "str1", "str2", "Token", "Other", "Alternation", "Empty", "other", "none", "int"]
CONV = "(not NEGATED(self) and ((STRV(pre) and len(pre) == 1) or (PREGEX(pre) and TYPE(pre) == 'Token')))"
# class invariant (B1): a Token-typed text is one character, or a backslash and one character
REQ = "IMPLIES(PREGEX(pre) and TYPE(pre) == 'Token', not NONE(TOCHAR(pre)))"
BAD = f"not {CONV} and (not ISCLS(pre) or NEGATED(self) != NEGATED(pre))"


def operand_ok(which, other):
    # the operand `which` of the recorded core operation is `pre` itself, or AnyFrom(pre) after the documented conversion
    return (f"(SAME_TEXT(CLASSARG(GHOSTOP(result)[{which}]), '[' + CESC(TOCHAR(pre)) + ']') and not NEGATED(GHOSTOP(result)[{which}]) "
            f"if {CONV} else GHOSTOP(result)[{which}] is pre) and GHOSTOP(result)[{other}] is self")


from .classes_iv import CLS_KINDS
C[M + "__or"] = dict(
    params={"pre1": CLS_KINDS, "pre2": CLS_KINDS}, raises={"CannotBeUnionedException": "NEGATED(pre1) != NEGATED(pre2)"},
    ensures="ISCLS(result) and (SAME_TEXT(TEXT(result), '.') if (ISANY(pre1) or ISANY(pre2)) else (NEGATED(result) == NEGATED(pre1) "
            "and VEQ(TV(VERBOSE(result)), VU(TV(VERBOSE(pre1)), TV(VERBOSE(pre2))))))",
    returns="class_op", op="or", frame=[], slice_forks=True)
GLOBALW = "(ISGLOBALWORD({p}))"
SAMEKIND = "NEGATED(pre1) == NEGATED(pre2)"
DIFF = "VM(TV(VERBOSE(pre1)), TV(VERBOSE(pre2)))"
# 2.a of __sub: the characters of pre1 that lie in a range of pre2 are removed, range by range
INV_SUB_OUTER = ("WFC(lst_chars1) and WFR(splt_ranges2) and "
                 "VEQ(VM(CV(lst_chars1), RV(splt_ranges2)), VM(CV(ENTRY['lst_chars1']), RV(splt_ranges2))) and "
                 "CLIST_OUT(lst_chars1, splt_ranges2, K)")
INV_SUB_INNER = ("0 <= i and i <= LEN(lst_chars1) and WFC(lst_chars1) and "
                 "VEQ(VM(CV(lst_chars1), RV(splt_ranges2)), VM(CV(ENTRY['lst_chars1']), RV(splt_ranges2))) and "
                 "CLIST_OUT(lst_chars1, splt_ranges2, K_OUTER) and CPREFIX_OUT(lst_chars1, i, start, end)")
C[M + "__sub"] = dict(
    params={"pre1": CLS_KINDS, "pre2": CLS_KINDS},
    raises={"CannotBeSubtractedException": f"not ({SAMEKIND})",
            "EmptyClassException": f"{SAMEKIND} and (ISANY(pre2) or (not ISANY(pre1) and not ISGLOBALWORD(pre1) and VEMPTY({DIFF})))",
            "GlobalWordCharSubtractionException": f"{SAMEKIND} and not ISANY(pre2) and not ISANY(pre1) and ISGLOBALWORD(pre1)"},
    ensures=f"ISCLS(result) and (NEGATED(result) == (not NEGATED(pre2)) if ISANY(pre1) else (NEGATED(result) == NEGATED(pre1) and "
            f"VEQ(TV(VERBOSE(result)), {DIFF})))",
    loops={1: {"inv": INV_SUB_OUTER, "kinds": {"lst_chars1": "char"}},
           2: {"inv": INV_SUB_INNER, "kinds": {"lst_chars1": "char"}}},
    enumerate_sets=True, lists="concrete", returns="class_op", op="sub", frame=[], slice_forks=True)
for meth, op, exc, mine, theirs in (("__or__", "or", "CannotBeUnionedException", 1, 2), ("__ror__", "or", "CannotBeUnionedException", 2, 1),
                                    ("__sub__", "sub", "CannotBeSubtractedException", 1, 2), ("__rsub__", "sub", "CannotBeSubtractedException", 2, 1)):
    C[M + meth] = dict(
        params={"self": "classobj", "pre": OPERAND}, requires=REQ, raises={exc: BAD},
        may_raise=["EmptyClassException", "GlobalWordCharSubtractionException"] if op == "sub" else [],
        ensures=f"ISCLS(result) and NEGATED(result) == NEGATED(self) and GHOSTOP(result)[0] == '{op}' and " + operand_ok(theirs, mine),
        returns="class_wrapped", frame=[], concrete_native=True)
C[M + "__invert__"] = dict(
    params={"self": "classobj"}, raises={},
    ensures="NEGATED(result) == (not NEGATED(self)) and SAME_TEXT(CLASSARG(result), '[' + ('' if NEGATED(self) else '^') + "
            "VERBOSE(self)[(2 if NEGATED(self) else 1):-1] + ']')",
    returns="class_wrapped", flips=True, frame=[])
# the word-character classes: their constructors hand the documented bracket text to __Class.__init__, remember is_global, and
# ~ maps each onto the other with the same is_global (that the two texts are complements: finite part of C06, all code points)
for cls, other, txt, neg in (("AnyWordChar", "AnyButWordChar", "[a-zA-Z0-9_]", False), ("AnyButWordChar", "AnyWordChar", "[^a-zA-Z0-9_]", True)):
    otxt = "[^a-zA-Z0-9_]" if not neg else "[a-zA-Z0-9_]"
    C[K + cls + ".__init__"] = dict(
        params={"self": "newobj", "is_global": "bool"}, raises={},
        ensures=f"SAME_TEXT(CLASSARG(self), '{txt}') and NEGATED(self) == {neg} and ISGLOBALWORD(self) == is_global",
        returns="class_ctor", value=f"'{txt}'", neg=neg, fields={f"_{cls}__is_global": "is_global"}, frame=FRC + [f"self._{cls}__is_global"])
    C[K + cls + ".__invert__"] = dict(
        params={"self": ["classobj:" + ("Word" if not neg else "ButWord")]}, raises={},
        ensures=f"ISCLS(result) and NEGATED(result) == {not neg} and ISGLOBALWORD(result) == ISGLOBALWORD(self) and "
                f"SAME_TEXT(CLASSARG(result), '{otxt}')",
        returns="word_invert", other=other, frame=[])
C[K + "Any.__invert__"] = dict(params={"self": "classobj"}, raises={"CannotBeNegatedException": "True"}, returns="opaque_class",
                               cover_optional={"normal": True}, frame=[])
