"""G10 - argument validation and composition of the meta patterns (essentials.py): exceptions are raised iff
documented, for every argument kind and ALL integers; what the constructors emit is decided per parameter tuple by the
language checks (C15-C19).  Bodies are verified against the contracts of what they call (class forms, Numeral, the
assumed contract of __Integer.__integer / Date.__date_pre)."""
E = "pregex.meta.essentials."
FR = ["self._Pregex__pattern", "self._Pregex__type", "self._Pregex__repeatable", "self._Pregex__compiled"]
C = {}

C[E + "__Word.__init__"] = dict(inline=True)
C[E + "__Integer.__integer"] = dict(params={"start": "int", "end": "int", "is_extensible": "bool"}, raises={},
                                    requires="0 <= start and start <= end", returns="opaque_other", assumed=True)
C[E + "Date.__date_pre"] = dict(params={"format": "text"}, raises={}, requires="format in DATE_FORMATS()",
                                returns="opaque_other", assumed=True, concrete_native=True)

ALLT = ["Alternation", "Assertion", "Class", "Empty", "Group", "Other", "Quantifier", "Token"]
INTB = "(INT(x) or BOOLV(x))"     # what isinstance(x, int) accepts

C[E + "__Integer.__init__"] = dict(
    params={"self": "newobj", "sign": ALLT, "start": "dyn", "end": "dyn",
            "is_extensible": "bool"},
    raises={"InvalidArgumentTypeException": "not INT(start) or not INT(end)",
            "InvalidArgumentValueException": "INT(start) and INT(end) and (start < 0 or start > end)"},
    ensures="True", returns="opaque_init", frame=FR)

C[E + "Numeral.__init__"] = dict(
    params={"self": "newobj", "base": "intnb", "n_min": "dyn", "n_max": "dyn", "is_extensible": "bool"},
    raises={"InvalidArgumentTypeException": "not INT(base) or (2 <= base and base <= 16 and (not INT(n_min) or "
                                            "(n_min >= 0 and not INT(n_max) and not NONE(n_max))))",
            "InvalidArgumentValueException": "INT(base) and (base < 2 or base > 16 or (INT(n_min) and (n_min < 0 or "
                                             "(INT(n_max) and (n_max < 0 or n_max < n_min)))))"},
    ensures="True", returns="opaque_init", lists="concrete",
    loops={1: {"inv": "ISCLS(pre) and not NEGATED(pre)"}}, frame=FR)

C[E + "__Decimal.__init__"] = dict(
    params={"self": "newobj", "integer_part": ALLT, "no_integer_part": ["none", "Assertion", "Group"],
            "min_decimal": "dyn", "max_decimal": "dyn", "is_extensible": "bool"},
    raises={"InvalidArgumentTypeException": "not INT(min_decimal) or (min_decimal >= 1 and not INT(max_decimal) and not NONE(max_decimal))",
            "InvalidArgumentValueException": "INT(min_decimal) and (min_decimal < 1 or (INT(max_decimal) and min_decimal > max_decimal))"},
    ensures="True", returns="opaque_init", frame=FR, max_paths=60000)

C[E + "Word.__init__"] = dict(
    params={"self": "newobj", "min_chars": "intx", "max_chars": "intx", "is_global": "bool", "is_extensible": "bool"},
    raises={"InvalidArgumentTypeException": "not INT(min_chars) or (min_chars >= 1 and not INT(max_chars) and not NONE(max_chars))",
            "InvalidArgumentValueException": "INT(min_chars) and (min_chars < 1 or (INT(max_chars) and (max_chars < 1 or min_chars > max_chars)))"},
    ensures="True", returns="none", frame=FR)

for cls, arg in (("WordContains", "infix"), ("WordStartsWith", "prefix"), ("WordEndsWith", "suffix")):
    C[E + cls + ".__init__"] = dict(
        params={"self": "newobj", arg: "affixes", "is_global": "bool", "is_extensible": "bool"},
        raises={"InvalidArgumentTypeException": f"not ALLSTR({arg})"},
        ensures="True", returns="none", frame=FR)

C[E + "Date.__date_formats"] = dict(params={}, raises={}, ensures="sorted(result) == sorted(DATE_FORMATS())", returns="expr", result="DATE_FORMATS()",
                                    lists="concrete", frame=[])
C[E + "Date.__init__"] = dict(
    params={"self": "newobj", "formats": "formats", "is_extensible": "bool"},
    raises={"InvalidArgumentValueException": "not ALLDOC(formats)"},
    ensures="True", returns="none", lists="concrete", frame=FR)


# ---- the public Integer / Decimal classes: the template's documented conditions, unchanged ---------------------------
INT_T = "not INT(start) or not INT(end)"
INT_V = "INT(start) and INT(end) and (start < 0 or start > end)"
INT_OK = "INT(start) and INT(end) and 0 <= start and start <= end"
for cls in ("Integer", "PositiveInteger", "NegativeInteger", "UnsignedInteger"):
    ps = {"self": "newobj", "start": "dyn", "end": "dyn"}
    if cls == "Integer":
        ps["include_sign"] = "bool"
    ps["is_extensible"] = "bool"
    C[E + cls + ".__init__"] = dict(
        params=ps, raises={"InvalidArgumentTypeException": INT_T, "InvalidArgumentValueException": INT_V},
        ensures="True", returns="opaque_init", frame=FR)
for cls in ("Decimal", "PositiveDecimal", "NegativeDecimal", "UnsignedDecimal"):
    ps = {"self": "newobj", "start": "dyn", "end": "dyn", "min_decimal": "dyn", "max_decimal": "dyn"}
    if cls == "Decimal":
        ps["include_sign"] = "bool"
    ps["is_extensible"] = "bool"
    C[E + cls + ".__init__"] = dict(
        params=ps,
        raises={"InvalidArgumentTypeException": f"({INT_T}) or (({INT_OK}) and (not INT(min_decimal) or (min_decimal >= 1 and "
                                                "not INT(max_decimal) and not NONE(max_decimal))))",
                "InvalidArgumentValueException": f"({INT_V}) or (({INT_OK}) and INT(min_decimal) and (min_decimal < 1 or "
                                                 "(INT(max_decimal) and min_decimal > max_decimal)))"},
        ensures="True", returns="opaque_init", frame=FR, max_paths=60000)
