"""G10 - the meta patterns (essentials.py), for ALL integer parameters and every argument kind:
 * argument validation: each documented exception is raised iff its documented condition holds, nothing else is raised;
 * composition: the emitted pattern IS (same text as) a stated chain of the library's own operations -
     Word(min, max, g, ext)        = AnyWordChar(g).at_least_at_most(min, max) [.enclose(WordBoundary())]
     WordContains / StartsWith / EndsWith = Either(affixes) enclosed by / followed by / preceded by AnyWordChar(g).indefinite() [bounded]
     Numeral(b, n, m, ext)         = Numeral(b, 1, 1, True).at_least_at_most(n, m) [bounded]   (the digit class of the base: decided per base)
     __Integer / Integer family    = <reference sign text> + __integer(start, end, ext)
     __Decimal / Decimal family    = (Integer pattern | <reference text for a missing integer part>) + '.' + Numeral(10, min, max, ext)
     Date(formats, ext)            = Either(__date_pre(f) for the selected formats) [bounded]
   so that the semantics of each follows from the contracts of those operations (C02, C04, C10) and, for the leaves
   (__integer, __date_pre, the digit classes), from the per-parameter language decisions of C15 / C17 / C19.
Bodies are verified against the contracts of what they call; constant sub-expressions are executed on the real code."""
E = "pregex.meta.essentials."
FR = ["self._Pregex__pattern", "self._Pregex__type", "self._Pregex__repeatable", "self._Pregex__compiled"]
C = {}

C[E + "__Word.__init__"] = dict(inline=True)
C[E + "__Integer.__integer"] = dict(params={"start": "int", "end": "int", "is_extensible": "bool"}, raises={},
                                    requires="0 <= start and start <= end", returns="opaque_other", assumed=True)
C[E + "Date.__date_pre"] = dict(params={"format": "text"}, raises={}, requires="format in DATE_FORMATS()",
                                returns="opaque_other", assumed=True, concrete_native=True)

ALLT = ["Alternation", "Assertion", "Class", "Empty", "Group", "Other", "Quantifier", "Token"]
INTB = "(INT(x) or BOOLV(x))"     # what isinstance(x, int) accepts

C[E + "__Integer.__init__"] = dict(
    params={"self": "newobj", "sign": ALLT, "start": "dyn", "end": "dyn",
            "is_extensible": "bool"},
    raises={"InvalidArgumentTypeException": "not INT(start) or not INT(end)",
            "InvalidArgumentValueException": "INT(start) and INT(end) and (start < 0 or start > end)"},
    ensures="SAME_TEXT(TEXT(self), TEXT(INTEGER_T(sign, start, end, is_extensible)))", returns="wrapped_init",
    value="INTEGER_T(sign, start, end, is_extensible)", frame=FR)

C[E + "Numeral.__init__"] = dict(
    params={"self": "newobj", "base": "base", "n_min": "dyn", "n_max": "dyn", "is_extensible": "bool"},
    raises={"InvalidArgumentTypeException": "not INTB(base) or (2 <= base and base <= 16 and (not INT(n_min) or "
                                            "(n_min >= 0 and not INT(n_max) and not NONE(n_max))))",
            "InvalidArgumentValueException": "INTB(base) and (base < 2 or base > 16 or (INT(n_min) and (n_min < 0 or "
                                             "(INT(n_max) and (n_max < 0 or n_max < n_min)))))"},
    # for ALL n_min, n_max: the pattern is the digit class of the base, repeated n_min..n_max times, bounded
    ensures="SAME_TEXT(TEXT(self), TEXT(NUMERAL_CHAIN(base, n_min, n_max, is_extensible)))", returns="wrapped_init",
    value="NUMERAL_CHAIN(base, n_min, n_max, is_extensible)", lists="concrete",
    loops={1: {"inv": "ISCLS(pre) and not NEGATED(pre)"}}, frame=FR)

C[E + "__Decimal.__init__"] = dict(
    params={"self": "newobj", "integer_part": ALLT, "no_integer_part": ["none", "Assertion", "Group"],
            "min_decimal": "dyn", "max_decimal": "dyn", "is_extensible": "bool"},
    raises={"InvalidArgumentTypeException": "not INT(min_decimal) or (min_decimal >= 1 and not INT(max_decimal) and not NONE(max_decimal))",
            "InvalidArgumentValueException": "INT(min_decimal) and (min_decimal < 1 or (INT(max_decimal) and min_decimal > max_decimal))"},
    ensures="SAME_TEXT(TEXT(self), TEXT(DECIMAL_T(integer_part, no_integer_part, min_decimal, max_decimal, is_extensible)))",
    returns="wrapped_init", value="DECIMAL_T(integer_part, no_integer_part, min_decimal, max_decimal, is_extensible)",
    frame=FR, max_paths=60000)

C[E + "Word.__init__"] = dict(
    params={"self": "newobj", "min_chars": "intx", "max_chars": "intx", "is_global": "boolc", "is_extensible": "bool"},
    raises={"InvalidArgumentTypeException": "not INT(min_chars) or (min_chars >= 1 and not INT(max_chars) and not NONE(max_chars))",
            "InvalidArgumentValueException": "INT(min_chars) and (min_chars < 1 or (INT(max_chars) and (max_chars < 1 or min_chars > max_chars)))"},
    # the pattern IS the method chain, for ALL bounds: AnyWordChar(g).at_least_at_most(min, max) [.enclose(WordBoundary())]
    ensures="SAME_TEXT(TEXT(self), TEXT(WORD_CHAIN(min_chars, max_chars, is_global, is_extensible)))", returns="wrapped_init",
    value="WORD_CHAIN(min_chars, max_chars, is_global, is_extensible)", frame=FR)

for cls, arg, chain in (("WordContains", "infix", "WORDCONTAINS_CHAIN"), ("WordStartsWith", "prefix", "WORDSTARTS_CHAIN"),
                        ("WordEndsWith", "suffix", "WORDENDS_CHAIN")):
    C[E + cls + ".__init__"] = dict(
        params={"self": "newobj", arg: "affixes", "is_global": "boolc", "is_extensible": "bool"},
        raises={"InvalidArgumentTypeException": f"not ALLSTR({arg})"},
        # the pattern IS the chain Either(affixes) enclosed by / followed by / preceded by AnyWordChar(g).indefinite(), bounded
        ensures=f"SAME_TEXT(TEXT(self), TEXT({chain}({arg}, is_global, is_extensible)))", returns="wrapped_init",
        value=f"{chain}({arg}, is_global, is_extensible)", frame=FR,
        max_paths=40000, slice_forks=True)

C[E + "Date.__date_formats"] = dict(params={}, raises={}, ensures="sorted(result) == sorted(DATE_FORMATS())", returns="expr", result="DATE_FORMATS()",
                                    lists="concrete", frame=[])
C[E + "Date.__init__"] = dict(
    params={"self": "newobj", "formats": "formats", "is_extensible": "bool"},
    raises={"InvalidArgumentValueException": "not ALLDOC(formats)"},
    # the pattern is the alternation of the selected formats' patterns (each: Date.__date_pre, decided per format in C19)
    ensures="SAME_TEXT(TEXT(self), TEXT(DATE_CHAIN(formats, is_extensible)))", returns="wrapped_init",
    value="DATE_CHAIN(formats, is_extensible)", lists="concrete", frame=FR)


# ---- the public Integer / Decimal classes: the template's documented conditions, unchanged ---------------------------
INT_T = "not INT(start) or not INT(end)"
INT_V = "INT(start) and INT(end) and (start < 0 or start > end)"
INT_OK = "INT(start) and INT(end) and 0 <= start and start <= end"
SIGNS = {"Integer": "SIGN_INTEGER(include_sign, is_extensible)", "PositiveInteger": "SIGN_POSITIVE(is_extensible)",
         "NegativeInteger": "SIGN_NEGATIVE(is_extensible)", "UnsignedInteger": "SIGN_UNSIGNED(is_extensible)"}
for cls in ("Integer", "PositiveInteger", "NegativeInteger", "UnsignedInteger"):
    ps = {"self": "newobj", "start": "dyn", "end": "dyn"}
    if cls == "Integer":
        ps["include_sign"] = "boolc"
    ps["is_extensible"] = "boolc"
    # for ALL start, end: the pattern is the (reference) sign text followed by the digits pattern of the range
    chain = f"INTEGER_T({SIGNS[cls]}, start, end, is_extensible)"
    C[E + cls + ".__init__"] = dict(
        params=ps, raises={"InvalidArgumentTypeException": INT_T, "InvalidArgumentValueException": INT_V},
        ensures=f"SAME_TEXT(TEXT(self), TEXT({chain}))", returns="wrapped_init", value=chain, frame=FR)
PARTS = {"Decimal": ("NEW('Integer', start, end, include_sign, is_extensible)", "NOINT_DECIMAL(start, include_sign, is_extensible)"),
         "PositiveDecimal": ("NEW('PositiveInteger', start, end, is_extensible)", "NOINT_POSITIVE(start, is_extensible)"),
         "NegativeDecimal": ("NEW('NegativeInteger', start, end, is_extensible)", "NOINT_NEGATIVE(start, is_extensible)"),
         "UnsignedDecimal": ("NEW('UnsignedInteger', start, end, is_extensible)", "NOINT_UNSIGNED(start, is_extensible)")}
for cls in ("Decimal", "PositiveDecimal", "NegativeDecimal", "UnsignedDecimal"):
    ps = {"self": "newobj", "start": "dyn", "end": "dyn", "min_decimal": "dyn", "max_decimal": "dyn"}
    if cls == "Decimal":
        ps["include_sign"] = "boolc"
    ps["is_extensible"] = "boolc"
    # for ALL parameters: (the corresponding Integer pattern | the reference text for a missing integer part) . fraction digits
    chain = f"DECIMAL_T({PARTS[cls][0]}, {PARTS[cls][1]}, min_decimal, max_decimal, is_extensible)"
    C[E + cls + ".__init__"] = dict(
        params=ps,
        raises={"InvalidArgumentTypeException": f"({INT_T}) or (({INT_OK}) and (not INT(min_decimal) or (min_decimal >= 1 and "
                                                "not INT(max_decimal) and not NONE(max_decimal))))",
                "InvalidArgumentValueException": f"({INT_V}) or (({INT_OK}) and INT(min_decimal) and (min_decimal < 1 or "
                                                 "(INT(max_decimal) and min_decimal > max_decimal)))"},
        ensures=f"SAME_TEXT(TEXT(self), TEXT({chain}))", returns="wrapped_init", value=chain, frame=FR, max_paths=60000)
