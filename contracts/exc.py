"""G11 - the library's exception classes (exceptions.py): every constructor is TOTAL on the arguments the library passes it (a
message string, a name of any kind, operands / class objects / code points).  The contracts of all other functions rely on it:
`raise X(...)` is modelled as raising X, which is only right if building X cannot itself fail with another exception."""
X = "pregex.core.exceptions."
C = {}
TYPES = ["Alternation", "Assertion", "Class", "Empty", "Group", "Other", "Quantifier", "Token"]
for cls, params in (
        ("InvalidArgumentValueException", {"message": "text"}), ("InvalidArgumentTypeException", {"message": "text"}),
        ("NotEnoughArgumentsException", {"message": "text"}), ("InvalidCapturingGroupNameException", {"name": "text"}),
        ("CannotBeNegatedException", {}), ("CannotBeUnionedException", {"pre": "pre", "are_both_classes": "bool"}),
        ("CannotBeSubtractedException", {"pre": "pre", "are_both_classes": "bool"}),
        ("GlobalWordCharSubtractionException", {"pre": "pregex"}), ("EmptyClassException", {"pre1": "pregex", "pre2": "pregex"}),
        ("InvalidRangeException", {"start": "int", "end": "int"}), ("CannotBeRepeatedException", {"pre": "pregex"}),
        ("NonFixedWidthPatternException", {"lookbehind": "pregex"}), ("EmptyNegativeAssertionException", {})):
    C[X + cls + ".__init__"] = dict(params={"self": "newobj", **params}, raises={}, ensures="result is None", frame=[])
