"""G5 - the matching API (C11, C12, C13, C14): wiring contracts against the R8 / R5 oracle terms.  Every method's
result equals the oracle term built from exactly (pattern text, MULTILINE|DOTALL, text) on BOTH code paths (cached
compiled pattern or not - the cache invariant is part of Inv), for is_path True and False (text = READ(path))."""
P = "pregex.core.pre.Pregex."
C = {}
S = {"self": "selfc", "source": "text", "is_path": "bool"}
T = "TXT(source, is_path)"

C[P + "__extract_text"] = dict(params={"source": "text"}, raises={}, ensures="SAME_TEXT(result, READ(source))",
                               returns="expr", result="READ(source)", frame=[])
C[P + "__iterate_match_objects"] = dict(params=S, raises={}, ensures=f"SAMESEQ(result, FINDITER(self, {T}))",
                                        returns="expr", result=f"FINDITER(self, {T})", frame=[])
C[P + "has_match"] = dict(params=S, raises={}, ensures=f"result == (NMATCHES(self, {T}) > 0)", returns="expr",
                          result=f"NMATCHES(self, {T}) > 0", frame=[])
C[P + "is_exact_match"] = dict(params=S, raises={}, ensures=f"result == FULLMATCHES(self, {T})", returns="expr",
                               result=f"FULLMATCHES(self, {T})", frame=[])

for nm, spec in (("matches", f"SPEC_MATCHES(self, {T})"), ("matches_and_pos", f"SPEC_MATCHES_POS(self, {T})")):
    for pre in ("iterate_", "get_"):
        C[P + pre + nm] = dict(params=S, raises={}, ensures=f"SEQ_EQ(result, {spec})", returns="expr", result=spec, frame=[])

WIN = {"self": "selfc", "source": "text", "n_left": "dynint", "n_right": "dynint", "is_path": "bool"}
WSPEC = f"SPEC_WINDOWS(self, {T}, n_left, n_right)"
for pre in ("iterate_", "get_"):
    C[P + pre + "matches_with_context"] = dict(
        params=WIN,
        raises={"InvalidArgumentTypeException": "not INT(n_left) or not INT(n_right)",
                "InvalidArgumentValueException": "INT(n_left) and INT(n_right) and (n_left < 0 or n_right < 0)"},
        ensures=f"SEQ_EQ(result, {WSPEC})", returns="expr", result=WSPEC, frame=[])

CAP = {"self": "selfc", "source": "text", "include_empty": "bool", "is_path": "bool"}
CAPR = {"self": "selfc", "source": "text", "include_empty": "bool", "relative_to_match": "bool", "is_path": "bool"}
for pre in ("iterate_", "get_"):
    C[P + pre + "captures"] = dict(params=CAP, raises={}, ensures=f"SEQ_EQ(result, SPEC_CAPTURES(self, {T}, include_empty))",
                                   returns="expr", result=f"SPEC_CAPTURES(self, {T}, include_empty)", frame=[])
    C[P + pre + "named_captures"] = dict(params=CAP, raises={}, ensures=f"SEQ_EQ(result, SPEC_NAMED(self, {T}, include_empty))",
                                         returns="expr", result=f"SPEC_NAMED(self, {T}, include_empty)", frame=[])
    C[P + pre + "captures_and_pos"] = dict(
        params=CAPR, raises={}, ensures=f"SEQ_EQ(result, SPEC_CAPPOS(self, {T}, include_empty, relative_to_match))",
        returns="expr", result=f"SPEC_CAPPOS(self, {T}, include_empty, relative_to_match)", frame=[])
    C[P + pre + "named_captures_and_pos"] = dict(
        params=CAPR, raises={}, ensures=f"SEQ_EQ(result, SPEC_NAMEDPOS(self, {T}, include_empty, relative_to_match))",
        returns="expr", result=f"SPEC_NAMEDPOS(self, {T}, include_empty, relative_to_match)", frame=[])
C[P + "iterate_captures_and_pos"]["loops"] = {
    2: {"inv": "counter == K and LIST_EQ(groups, CAPPOS(match, include_empty, relative_to_match, K))"}}
C[P + "iterate_named_captures_and_pos"]["loops"] = {
    2: {"inv": "LIST_EQ(groups, NAMEDPOS(match, include_empty, relative_to_match, K))"}}

C[P + "replace"] = dict(
    params={"self": "selfc", "source": "text", "repl": "text", "count": "int", "is_path": "bool"},
    raises={"InvalidArgumentValueException": "count < 0"},
    ensures=f"SAME_TEXT(result, RESUB(self, repl, {T}, count))", returns="expr", result=f"RESUB(self, repl, {T}, count)", frame=[])

C[P + "split_by_match"] = dict(
    params=S, raises={}, ensures=f"LIST_EQ(result, SPEC_SPLIT(self, {T}))", returns="expr", result=f"SPEC_SPLIT(self, {T})",
    loops={1: {"inv": "index == PREVEND(self, source, K) and LIST_EQ(split_list, SPLITS(self, source, K))"}}, frame=[])

# ---- the compiled-pattern cache (C11 histories, C20) ----------------------------------------------------
C[P + "get_pattern"] = dict(params={"self": "selfc", "include_flags": "bool"}, raises={},
                            ensures="SAME_TEXT(result, ('/' + EXPORTED(self) + '/gmsu') if include_flags else EXPORTED(self))",
                            returns="expr", result="('/' + EXPORTED(self) + '/gmsu') if include_flags else EXPORTED(self)", frame=[])
C[P + "__repr__"] = dict(params={"self": "selfc"}, raises={}, returns="expr", result="EXPORTED(self)", assumed=True)
C[P + "compile"] = dict(params={"self": "selfc"}, raises={},
                        ensures="SAME_COMPILED(COMPILED_FIELD(self), COMPILED(self))", returns="setcompiled",
                        frame=["self._Pregex__compiled"])
C[P + "get_compiled_pattern"] = dict(
    params={"self": "selfc", "discard_after": "bool"}, raises={},
    ensures="SAME_COMPILED(result, COMPILED(self)) and (COMPILED_FIELD(self) is None if discard_after else "
            "SAME_COMPILED(COMPILED_FIELD(self), COMPILED(self)))",
    returns="expr", result="COMPILED(self)", frame=["self._Pregex__compiled"])
C[P + "purge"] = dict(params={}, raises={}, ensures="result is None", returns="expr", result="None", frame=[])

# split_by_capture: the outer loop runs over the matches (K), the inner one over the list CAPPOS(match K, ...) built by
# recursion on the group counter (J): fold loop form.  CAPSPLIT_LIST / CAPSPLIT_IDX(k, j): the pieces and the position after
# the matches < k and the groups <= j of match k (recursive specification; a group takes part iff it participated and
# (include_empty or it is not empty)); python slice semantics (text[a:b] is empty when b < a), so nested groups are covered
CSINV = ("0 <= index and index <= len(source) and index == CAPSPLIT_IDX(self, source, include_empty, {k}, {j}) and "
         "LIST_EQ(split_list, CAPSPLIT_LIST(self, source, include_empty, {k}, {j}))")
C[P + "split_by_capture"] = dict(
    params={"self": "selfc", "source": "text", "include_empty": "bool", "is_path": "bool"}, raises={},
    ensures=f"LIST_EQ(result, SPLIT_BY_CAPTURE_SPEC(self, {T}, include_empty))", returns="expr",
    result=f"SPLIT_BY_CAPTURE_SPEC(self, {T}, include_empty)",
    loops={1: {"inv": CSINV.format(k="K", j="0")},
           2: {"inv": CSINV.format(k="K_OUTER", j="J"), "fold": "CAPPOS"}}, frame=[])
