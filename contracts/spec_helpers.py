"""Spec functions written in python.  The verifier evaluates them symbolically with its own interpreter (they are
inlined into the clauses that use them); the run-time checker imports this module with the concrete builtins of
pvc/specrt.py injected.  Reference texts are the FULLY PARENTHESISED compositions the properties speak about."""


def REF_QUANT(p, lo, hi, lazy):
    # (?:P){lo,hi}  /  (?:P){lo,}   (+ '?' when lazy);  the empty pattern stays empty
    if EMPTY(p):
        return ''
    if hi is None:
        q = '{' + DECS(lo) + ',}'
    else:
        q = '{' + DECS(lo) + ',' + DECS(hi) + '}'
    return '(?:' + TEXT(p) + ')' + q + ('?' if lazy else '')


def REF_GROUP_PLAIN(p, ci):
    # reference of group() on an operand that is not itself group-shaped
    if EMPTY(p):
        return ''
    return ('(?i:' if ci else '(?:') + TEXT(p) + ')'


def COND_GROUP(p, idx):
    # text a combinator splices in for operand p: grouped iff the grouping rule for its inferred type says so
    if RULE(p, idx):
        return GRPTEXT(p)
    return TEXT(p)


def OT(x):
    # the text an operand contributes: a Pregex's pattern, or the escaped form of a plain string
    if STRV(x):
        return ESC(x)
    return TEXT(x)


def ISEMPTY(x):
    if STRV(x):
        return x == ''
    return EMPTY(x)


def G(x):
    # reference rendering of an operand as ONE unit
    if ISEMPTY(x):
        return ''
    return '(?:' + OT(x) + ')'


def BADPRE(x):
    return not STRV(x) and not PREGEX(x)


def REF_CONCAT(s, x, on_right):
    if on_right:
        return G(s) + G(x)
    return G(x) + G(s)


def REF_EITHER(s, x, on_right):
    if ISEMPTY(x):
        return OT(s)
    if on_right:
        return G(s) + '|' + G(x)
    return G(x) + '|' + G(s)


def REF_ENCLOSE(s, x):
    return G(x) + G(s) + G(x)


def REF_LOOK(s, x, before, after):
    # G(s) wrapped by look-arounds:  before / after are '' or the opening of a look-around, e.g. '(?<='
    t = G(s)
    if before != '':
        t = before + OT(x) + ')' + t
    if after != '':
        t = t + after + OT(x) + ')'
    return t


# ---- matching API ---------------------------------------------------------------------------------------------

def SPEC_MATCHES(p, t):
    return [m.group(0) for m in FINDITER(p, t)]


def SPEC_MATCHES_POS(p, t):
    return [(m.group(0), m.start(0), m.end(0)) for m in FINDITER(p, t)]


def SPEC_WINDOWS(p, t, nl, nr):
    return [t[max(m.start(0) - nl, 0):min(m.end(0) + nr, len(t))] for m in FINDITER(p, t)]


def SPEC_CAPTURES(p, t, include_empty):
    if include_empty:
        return [m.groups() for m in FINDITER(p, t)]
    return [tuple(g for g in m.groups() if g != '') for m in FINDITER(p, t)]


def SPEC_NAMED(p, t, include_empty):
    if include_empty:
        return [m.groupdict() for m in FINDITER(p, t)]
    return [{k: v for k, v in m.groupdict().items() if v != ''} for m in FINDITER(p, t)]


def SPEC_CAPPOS(p, t, include_empty, relative):
    return [CAPPOS(m, include_empty, relative, NGROUPS(p)) for m in FINDITER(p, t)]


def SPEC_NAMEDPOS(p, t, include_empty, relative):
    return [NAMEDPOS(m, include_empty, relative, NNAMED(p)) for m in FINDITER(p, t)]


def SPEC_SPLIT(p, t):
    n = NMATCHES(p, t)
    return APPENDED(SPLITS(p, t, n), t[PREVEND(p, t, n):])


# ---- groups (C08) -------------------------------------------------------------------------------------------------

def REF_CAPTURE(p, name):
    # exactly one capturing group around the operand; a group-shaped operand is converted / renamed, not nested
    if EMPTY(p):
        return ''
    if NONE(name):
        op = '('
    else:
        op = '(?P<' + name + '>'
    if TYPE(p) != 'Group':
        return op + TEXT(p) + ')'
    sh = SHAPE(p)
    if sh == 'nc' or sh == 'cap':
        return op + BODY(p) + ')'
    if sh == 'named':
        if NONE(name):
            return TEXT(p)
        return op + BODY(p) + ')'
    return op + TEXT(p) + ')'


def REF_GROUP(p, ci):
    if EMPTY(p):
        return ''
    if ci:
        op = '(?i:'
    else:
        op = '(?:'
    if TYPE(p) != 'Group':
        return op + TEXT(p) + ')'
    sh = SHAPE(p)
    if sh == 'nc' or sh == 'nci' or sh == 'cap' or sh == 'named':
        return op + BODY(p) + ')'
    return op + TEXT(p) + ')'


# ---- class forms = folds of the method forms (G7) --------------------------------------------------------------

def FOLD(pres, op):
    if len(pres) == 0:
        return ''
    r = TP(pres[0])
    for p in pres[1:]:
        r = METHOD(r, op, p)
    return TEXT(r)


def FOLDV(pres, op):
    # the folded VALUE (a Pregex, or '' for no operands)
    if len(pres) == 0:
        return ''
    r = TP(pres[0])
    for p in pres[1:]:
        r = METHOD(r, op, p)
    return r


def FOLD_EXC(pres, op):
    # name of the exception the left fold through method `op` raises first ('' if none)
    if BADPRE(pres[0]):
        return 'InvalidArgumentTypeException'
    r = TP(pres[0])
    for p in pres[1:]:
        e = FIRST_EXC(op, r, p)
        if e != '':
            return e
        r = METHOD(r, op, p)
    return ''


# ---- meta patterns ------------------------------------------------------------------------------------------------

def DATE_FORMATS():
    # the 48 documented formats: orders D-M-Y, M-D-Y, Y-M-D; D in {dd, d}; M in {mm, m}; Y in {yyyy, yy}; separators - and /
    out = []
    for d in ('dd', 'd'):
        for m in ('mm', 'm'):
            for y in ('yyyy', 'yy'):
                for order in ((d, m, y), (m, d, y), (y, m, d)):
                    for sep in ('-', '/'):
                        out.append(sep.join(order))
    return out


def ALLDOC(formats):
    # every selected format is a documented one (None selects all; a string selects one)
    if NONE(formats):
        return True
    if STRV(formats):
        return formats in DATE_FORMATS()
    for f in formats:
        if not (f in DATE_FORMATS()):
            return False
    return True


def ALLSTR(x):
    # a string, or a list of strings
    if STRV(x):
        return True
    if not LISTV(x):
        return False
    for s in x:
        if not STRV(s):
            return False
    return True


# ---- class constructors (G9) -----------------------------------------------------------------------------------------

def TOCHAR(c):
    # the single character a string or a Pregex text stands for ('\\x' stands for x), else None
    if not STRV(c) and not PREGEX(c):
        return None
    t = RAWTEXT(c)
    if len(t) == 2 and t[0] == '\\':
        t = t[1]
    if len(t) == 1:
        return t
    return None


def CESC(ch):
    # a character as written inside brackets
    if ch in ('\\', '^', '[', ']', '-', '/'):
        return '\\' + ch
    return ch


def ALLCHARS(chars):
    for c in chars:
        if NONE(TOCHAR(c)):
            return False
    return True


def JOINCESC(chars):
    out = ''
    for c in chars:
        out = out + CESC(TOCHAR(c))
    return out


# ---- meta patterns as method chains (their text, for ALL integer parameters) -------------------------------------------

def BOUNDED_WORD(p, is_extensible):
    # __Word.__init__: the word pattern between word boundaries unless it is to be extended
    if is_extensible:
        return p
    return METHOD(p, 'enclose', NEW('WordBoundary'))


def WORD_CHAIN(min_chars, max_chars, is_global, is_extensible):
    return BOUNDED_WORD(METHOD(NEW('AnyWordChar', is_global), 'at_least_at_most', min_chars, max_chars), is_extensible)


def AFFIX_LIST(x):
    # a single string counts as a list of one
    if LISTV(x):
        return x
    return [x]


def WORDCHARS(is_global):
    # any run of word characters (possibly empty)
    return METHOD(NEW('AnyWordChar', is_global), 'indefinite')


def WORDCONTAINS_CHAIN(infix, is_global, is_extensible):
    return BOUNDED_WORD(METHOD(TP(FOLDV(tuple(AFFIX_LIST(infix)), 'either')), 'enclose', WORDCHARS(is_global)), is_extensible)


def WORDSTARTS_CHAIN(prefix, is_global, is_extensible):
    return BOUNDED_WORD(METHOD(TP(FOLDV(tuple(AFFIX_LIST(prefix)), 'either')), '__add__', WORDCHARS(is_global)), is_extensible)


def WORDENDS_CHAIN(suffix, is_global, is_extensible):
    return BOUNDED_WORD(METHOD(WORDCHARS(is_global), '__add__', TP(FOLDV(tuple(AFFIX_LIST(suffix)), 'either'))), is_extensible)


def NUMERAL_CHAIN(base, n_min, n_max, is_extensible):
    # the digit class of the base is Numeral(base, 1, 1, is_extensible=True) (its set of digits is decided per base in C17)
    return BOUNDED_WORD(METHOD(NUMERAL_DIGITS(base), 'at_least_at_most', n_min, n_max), is_extensible)


INTEGER_CORE_Q = 'pregex.meta.essentials.__Integer.__integer'


def INTEGER_T(sign, start, end, is_extensible):
    # __Integer: the sign pattern followed by the digits pattern of the range
    return METHOD(sign, '__add__', CALLQ('pregex.meta.essentials.__Integer.__integer', start, end, is_extensible))


def SIGN_INTEGER(include_sign, is_extensible):
    # reference texts of the sign part: none / '+' or '-' / (glued to nothing: after a non-word boundary, or no sign at all)
    if not include_sign:
        return PAT('')
    if is_extensible:
        return PAT('\\+|-')
    return PAT('\\B(?:\\+|-)|(?<!\\+|-)')


def SIGN_POSITIVE(is_extensible):
    if is_extensible:
        return PAT('\\+')
    return PAT('\\B\\+|(?<!\\+|-)')


def SIGN_NEGATIVE(is_extensible):
    if is_extensible:
        return PAT('-')
    return PAT('\\B-')


def SIGN_UNSIGNED(is_extensible):
    return PAT('(?<!\\+|-)')


def DECIMAL_T(integer_part, no_integer_part, min_decimal, max_decimal, is_extensible):
    # __Decimal: (integer part | what stands for a missing integer part) . fraction digits
    if NONE(no_integer_part):
        head = integer_part
    else:
        head = FOLDV((integer_part, no_integer_part), 'either')
    return METHOD(head, '__add__', METHOD(NUMERAL_CHAIN(10, min_decimal, max_decimal, is_extensible), '__radd__', '.'))


def NOINT_DECIMAL(start, include_sign, is_extensible):
    # what may stand where the integer part is missing ('.5'): only when the range starts at 0
    if start != 0:
        return None
    if include_sign:
        return PAT('(?<!\\d)(?:\\+|-)?')
    return PAT('(?<!\\d)')


def NOINT_POSITIVE(start, is_extensible):
    if start != 0:
        return None
    if is_extensible:
        return PAT('(?<!\\d)\\+?')
    return PAT('\\B\\+|(?<!\\+|-)\\B')      # the sign rule of PositiveInteger: an explicit '+', or no sign at all in front


def NOINT_NEGATIVE(start, is_extensible):
    if start != 0:
        return None
    if is_extensible:
        return PAT('(?<!\\d)-')
    return PAT('\\B-')


def NOINT_UNSIGNED(start, is_extensible):
    if start != 0:
        return None
    if is_extensible:
        return PAT('(?<!\\+|-|\\d)')
    return PAT('(?<!\\+|-)\\B')


def DATE_SELECTION(formats):
    # the formats a call selects: all documented ones for None, the single one for a string, else the list itself
    if NONE(formats):
        return DATE_FORMATS()
    if STRV(formats):
        return [formats]
    return formats


def DATE_CHAIN(formats, is_extensible):
    # the alternation, in the given order, of the patterns of the selected formats; bounded unless it is to be extended
    pres = []
    for f in DATE_SELECTION(formats):
        pres.append(CALLQ('pregex.meta.essentials.Date.__date_pre', f))
    return BOUNDED_WORD(TP(FOLDV(tuple(pres), 'either')), is_extensible)
