"""Spec functions written in python.  The verifier evaluates them symbolically with its own interpreter (they are
inlined into the clauses that use them); the run-time checker imports this module with the concrete builtins of
pvc/specrt.py injected.  Reference texts are the FULLY PARENTHESISED compositions the properties speak about."""


def REF_QUANT(p, lo, hi, lazy):
    # (?:P){lo,hi}  /  (?:P){lo,}   (+ '?' when lazy);  the empty pattern stays empty
    if EMPTY(p):
        return ''
    if hi is None:
        q = '{' + DECS(lo) + ',}'
    else:
        q = '{' + DECS(lo) + ',' + DECS(hi) + '}'
    return '(?:' + TEXT(p) + ')' + q + ('?' if lazy else '')


def REF_GROUP_PLAIN(p, ci):
    # reference of group() on an operand that is not itself group-shaped
    if EMPTY(p):
        return ''
    return ('(?i:' if ci else '(?:') + TEXT(p) + ')'


def COND_GROUP(p, idx):
    # text a combinator splices in for operand p: grouped iff the grouping rule for its inferred type says so
    if RULE(p, idx):
        return GRPTEXT(p)
    return TEXT(p)


def OT(x):
    # the text an operand contributes: a Pregex's pattern, or the escaped form of a plain string
    if STRV(x):
        return ESC(x)
    return TEXT(x)


def ISEMPTY(x):
    if STRV(x):
        return x == ''
    return EMPTY(x)


def G(x):
    # reference rendering of an operand as ONE unit
    if ISEMPTY(x):
        return ''
    return '(?:' + OT(x) + ')'


def BADPRE(x):
    return not STRV(x) and not PREGEX(x)


def REF_CONCAT(s, x, on_right):
    if on_right:
        return G(s) + G(x)
    return G(x) + G(s)


def REF_EITHER(s, x, on_right):
    if ISEMPTY(x):
        return OT(s)
    if on_right:
        return G(s) + '|' + G(x)
    return G(x) + '|' + G(s)


def REF_ENCLOSE(s, x):
    return G(x) + G(s) + G(x)


def REF_LOOK(s, x, before, after):
    # G(s) wrapped by look-arounds:  before / after are '' or the opening of a look-around, e.g. '(?<='
    t = G(s)
    if before != '':
        t = before + OT(x) + ')' + t
    if after != '':
        t = t + after + OT(x) + ')'
    return t
