"""Spec functions written in python.  The verifier evaluates them symbolically with its own interpreter (they are
inlined into the clauses that use them); the run-time checker imports this module with the concrete builtins of
pvc/specrt.py injected.  Reference texts are the FULLY PARENTHESISED compositions the properties speak about."""


def REF_QUANT(p, lo, hi, lazy):
    # (?:P){lo,hi}  /  (?:P){lo,}   (+ '?' when lazy);  the empty pattern stays empty
    if EMPTY(p):
        return ''
    if hi is None:
        q = '{' + DECS(lo) + ',}'
    else:
        q = '{' + DECS(lo) + ',' + DECS(hi) + '}'
    return '(?:' + TEXT(p) + ')' + q + ('?' if lazy else '')


def REF_GROUP_PLAIN(p, ci):
    # reference of group() on an operand that is not itself group-shaped
    if EMPTY(p):
        return ''
    return ('(?i:' if ci else '(?:') + TEXT(p) + ')'


def COND_GROUP(p, idx):
    # text a combinator splices in for operand p: grouped iff the grouping rule for its inferred type says so
    if RULE(p, idx):
        return GRPTEXT(p)
    return TEXT(p)
