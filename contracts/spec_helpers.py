"""Spec functions written in python.  The verifier evaluates them symbolically with its own interpreter (they are
inlined into the clauses that use them); the run-time checker imports this module with the concrete builtins of
pvc/specrt.py injected.  Reference texts are the FULLY PARENTHESISED compositions the properties speak about."""


def REF_QUANT(p, lo, hi, lazy):
    # (?:P){lo,hi}  /  (?:P){lo,}   (+ '?' when lazy);  the empty pattern stays empty
    if EMPTY(p):
        return ''
    if hi is None:
        q = '{' + DECS(lo) + ',}'
    else:
        q = '{' + DECS(lo) + ',' + DECS(hi) + '}'
    return '(?:' + TEXT(p) + ')' + q + ('?' if lazy else '')


def REF_GROUP_PLAIN(p, ci):
    # reference of group() on an operand that is not itself group-shaped
    if EMPTY(p):
        return ''
    return ('(?i:' if ci else '(?:') + TEXT(p) + ')'


def COND_GROUP(p, idx):
    # text a combinator splices in for operand p: grouped iff the grouping rule for its inferred type says so
    if RULE(p, idx):
        return GRPTEXT(p)
    return TEXT(p)


def OT(x):
    # the text an operand contributes: a Pregex's pattern, or the escaped form of a plain string
    if STRV(x):
        return ESC(x)
    return TEXT(x)


def ISEMPTY(x):
    if STRV(x):
        return x == ''
    return EMPTY(x)


def G(x):
    # reference rendering of an operand as ONE unit
    if ISEMPTY(x):
        return ''
    return '(?:' + OT(x) + ')'


def BADPRE(x):
    return not STRV(x) and not PREGEX(x)


def REF_CONCAT(s, x, on_right):
    if on_right:
        return G(s) + G(x)
    return G(x) + G(s)


def REF_EITHER(s, x, on_right):
    if ISEMPTY(x):
        return OT(s)
    if on_right:
        return G(s) + '|' + G(x)
    return G(x) + '|' + G(s)


def REF_ENCLOSE(s, x):
    return G(x) + G(s) + G(x)


def REF_LOOK(s, x, before, after):
    # G(s) wrapped by look-arounds:  before / after are '' or the opening of a look-around, e.g. '(?<='
    t = G(s)
    if before != '':
        t = before + OT(x) + ')' + t
    if after != '':
        t = t + after + OT(x) + ')'
    return t


# ---- matching API ---------------------------------------------------------------------------------------------

def SPEC_MATCHES(p, t):
    return [m.group(0) for m in FINDITER(p, t)]


def SPEC_MATCHES_POS(p, t):
    return [(m.group(0), m.start(0), m.end(0)) for m in FINDITER(p, t)]


def SPEC_WINDOWS(p, t, nl, nr):
    return [t[max(m.start(0) - nl, 0):min(m.end(0) + nr, len(t))] for m in FINDITER(p, t)]


def SPEC_CAPTURES(p, t, include_empty):
    if include_empty:
        return [m.groups() for m in FINDITER(p, t)]
    return [tuple(g for g in m.groups() if g != '') for m in FINDITER(p, t)]


def SPEC_NAMED(p, t, include_empty):
    if include_empty:
        return [m.groupdict() for m in FINDITER(p, t)]
    return [{k: v for k, v in m.groupdict().items() if v != ''} for m in FINDITER(p, t)]


def SPEC_CAPPOS(p, t, include_empty, relative):
    return [CAPPOS(m, include_empty, relative, NGROUPS(p)) for m in FINDITER(p, t)]


def SPEC_NAMEDPOS(p, t, include_empty, relative):
    return [NAMEDPOS(m, include_empty, relative, NNAMED(p)) for m in FINDITER(p, t)]


def SPEC_SPLIT(p, t):
    n = NMATCHES(p, t)
    return APPENDED(SPLITS(p, t, n), t[PREVEND(p, t, n):])


# ---- groups (C08) -------------------------------------------------------------------------------------------------

def REF_CAPTURE(p, name):
    # exactly one capturing group around the operand; a group-shaped operand is converted / renamed, not nested
    if EMPTY(p):
        return ''
    if NONE(name):
        op = '('
    else:
        op = '(?P<' + name + '>'
    if TYPE(p) != 'Group':
        return op + TEXT(p) + ')'
    sh = SHAPE(p)
    if sh == 'nc' or sh == 'cap':
        return op + BODY(p) + ')'
    if sh == 'named':
        if NONE(name):
            return TEXT(p)
        return op + BODY(p) + ')'
    return op + TEXT(p) + ')'


def REF_GROUP(p, ci):
    if EMPTY(p):
        return ''
    if ci:
        op = '(?i:'
    else:
        op = '(?:'
    if TYPE(p) != 'Group':
        return op + TEXT(p) + ')'
    sh = SHAPE(p)
    if sh == 'nc' or sh == 'nci' or sh == 'cap' or sh == 'named':
        return op + BODY(p) + ')'
    return op + TEXT(p) + ')'


# ---- class forms = folds of the method forms (G7) --------------------------------------------------------------

def FOLD(pres, op):
    if len(pres) == 0:
        return ''
    r = TP(pres[0])
    for p in pres[1:]:
        r = METHOD(r, op, p)
    return TEXT(r)


def FOLDV(pres, op):
    # the folded VALUE (a Pregex, or '' for no operands)
    if len(pres) == 0:
        return ''
    r = TP(pres[0])
    for p in pres[1:]:
        r = METHOD(r, op, p)
    return r


def FOLD_EXC(pres, op):
    # name of the exception the left fold through method `op` raises first ('' if none)
    if BADPRE(pres[0]):
        return 'InvalidArgumentTypeException'
    r = TP(pres[0])
    for p in pres[1:]:
        e = FIRST_EXC(op, r, p)
        if e != '':
            return e
        r = METHOD(r, op, p)
    return ''


# ---- meta patterns ------------------------------------------------------------------------------------------------

def DATE_FORMATS():
    # the 48 documented formats: orders D-M-Y, M-D-Y, Y-M-D; D in {dd, d}; M in {mm, m}; Y in {yyyy, yy}; separators - and /
    out = []
    for d in ('dd', 'd'):
        for m in ('mm', 'm'):
            for y in ('yyyy', 'yy'):
                for order in ((d, m, y), (m, d, y), (y, m, d)):
                    for sep in ('-', '/'):
                        out.append(sep.join(order))
    return out


def ALLDOC(formats):
    # every selected format is a documented one (None selects all; a string selects one)
    if NONE(formats):
        return True
    if STRV(formats):
        return formats in DATE_FORMATS()
    for f in formats:
        if not (f in DATE_FORMATS()):
            return False
    return True


def ALLSTR(x):
    # a string, or a list of strings
    if STRV(x):
        return True
    if not LISTV(x):
        return False
    for s in x:
        if not STRV(s):
            return False
    return True


# ---- class constructors (G9) -----------------------------------------------------------------------------------------

def TOCHAR(c):
    # the single character a string or a Pregex text stands for ('\\x' stands for x), else None
    if not STRV(c) and not PREGEX(c):
        return None
    t = RAWTEXT(c)
    if len(t) == 2 and t[0] == '\\':
        t = t[1]
    if len(t) == 1:
        return t
    return None


def CESC(ch):
    # a character as written inside brackets
    if ch in ('\\', '^', '[', ']', '-', '/'):
        return '\\' + ch
    return ch


def ALLCHARS(chars):
    for c in chars:
        if NONE(TOCHAR(c)):
            return False
    return True


def JOINCESC(chars):
    out = ''
    for c in chars:
        out = out + CESC(TOCHAR(c))
    return out
