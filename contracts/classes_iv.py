"""G8 - the interval core of the class algebra (C07): the nested functions reduce_ranges / reduce_chars of __or and
subtract_ranges of __sub, under contracts over the ABSTRACT VIEW (the denoted set of code points), with loop invariants
over lists-as-maps (E6).  Characters are code points (E3); a range string 'a-z' is the pair of its end points (the
contract of __split_range, which is only bounded-checked)."""
K = "pregex.core.classes.__Class."
C = {}

C[K + "__split_range"] = dict(params={"pattern": "text"}, raises={}, returns="split_range", assumed=True)

INV_RR_OUTER = ("0 <= i and i <= LEN(ranges) and WFR(ranges) and VEQ(RV(ranges), RV(ARGS['ranges']))")
INV_RR_INNER = ("0 <= j and j <= LEN(ranges) and 0 <= i and i < LEN(ranges) and WFR(ranges) and VEQ(RV(ranges), RV(ARGS['ranges'])) "
                "and CODE(start_i) == CODE(ranges[i][0]) and CODE(end_i) == CODE(ranges[i][1])")
C[K + "__or.<locals>.reduce_ranges"] = dict(
    params={"ranges": "rangestrs"}, requires="WFR(ranges)", raises={}, lists="concrete",
    ensures="WFR(result) and VEQ(RV(result), RV(ranges))",
    loops={1: {"inv": INV_RR_OUTER, "kinds": {"ranges": "pair"}},
           2: {"inv": INV_RR_INNER, "kinds": {"ranges": "pair"}}},
    frame=[])

# reduce_chars(ranges, chars): characters that lie inside / next to a range are absorbed by it
INV_RC_OUTER = ("0 <= i and i <= LEN(chars) and WFR(ranges) and WFC(chars) and "
                "VEQ(VU(RV(ranges), CV(chars)), VU(RV(ARGS['ranges']), CV(ARGS['chars'])))")
INV_RC_INNER = ("LSAME(ranges, ENTRY['ranges']) and LSAME(chars, ENTRY['chars']) and i == ENTRY['i']")
C[K + "__or.<locals>.reduce_chars"] = dict(
    params={"ranges": "rangestrs", "chars": "charlist"}, requires="WFR(ranges) and WFC(chars)", raises={}, lists="concrete",
    ensures="WFR(result[0]) and WFC(result[1]) and VEQ(VU(RV(result[0]), CV(result[1])), VU(RV(ranges), CV(chars)))",
    loops={1: {"inv": INV_RC_OUTER, "kinds": {"ranges": "pair", "chars": "char"}},
           2: {"inv": INV_RC_INNER, "kinds": {"ranges": "pair", "chars": "char"}}},
    frame=[])

# subtract_ranges(ranges1, ranges2): the ranges / characters left of ranges1 after removing every range of ranges2
INV_SR_OUTER = ("0 <= i and i <= LEN(ranges1) and WFR(ranges1) and WFR(ranges2) and "
                "VEQ(VM(RV(ranges1), RV(ranges2)), VM(RV(ARGS['ranges1']), RV(ARGS['ranges2']))) and "
                "PREFIX_DISJ(ranges1, i, RV(ranges2))")
INV_SR_INNER = ("LSAME(ranges1, ENTRY['ranges1']) and i == ENTRY['i'] and PREFIX_DISJ(ranges2, K, ELV(ranges1, i))")
INV_SR_FINAL = ("VEQ(VU(RV(ranges), CV(chars)), PREFIXV(ranges1, K)) and WFC(chars)")
C[K + "__sub.<locals>.subtract_ranges"] = dict(
    params={"ranges1": "rangestrs", "ranges2": "rangestrs"}, requires="WFR(ranges1) and WFR(ranges2)", raises={}, lists="concrete",
    ensures="WFR(result[0]) and WFC(result[1]) and VEQ(VU(RV(result[0]), CV(result[1])), VM(RV(ranges1), RV(ranges2)))",
    loops={1: {"inv": INV_SR_OUTER, "kinds": {"ranges1": "pair"}},
           2: {"inv": INV_SR_INNER, "kinds": {"ranges1": "pair"}},
           3: {"inv": INV_SR_FINAL, "kinds": {"ranges": "rangestr", "chars": "char"}}},
    frame=[])
