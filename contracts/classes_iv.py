"""G8 - the interval core of the class algebra (C07): the nested functions reduce_ranges / reduce_chars of __or and
subtract_ranges of __sub, under contracts over the ABSTRACT VIEW (the denoted set of code points), with loop invariants
over lists-as-maps (E6).  Characters are code points (E3); a range string 'a-z' is the pair of its end points (the
contract of __split_range, which is only bounded-checked)."""
K = "pregex.core.classes.__Class."
C = {}

C[K + "__split_range"] = dict(params={"pattern": "text"}, raises={}, returns="split_range", assumed=True)

INV_RR_OUTER = ("0 <= i and i <= LEN(ranges) and WFR(ranges) and VEQ(RV(ranges), RV(ARGS['ranges']))")
INV_RR_INNER = ("0 <= j and j <= LEN(ranges) and 0 <= i and i < LEN(ranges) and WFR(ranges) and VEQ(RV(ranges), RV(ARGS['ranges'])) "
                "and CODE(start_i) == CODE(ranges[i][0]) and CODE(end_i) == CODE(ranges[i][1])")
C[K + "__or.<locals>.reduce_ranges"] = dict(
    params={"ranges": "rangestrs"}, requires="WFR(ranges)", raises={}, lists="concrete",
    ensures="WFR(result) and VEQ(RV(result), RV(ranges))", returns="fresh_abs", result_shape="range",
    loops={1: {"inv": INV_RR_OUTER, "kinds": {"ranges": "pair"}},
           2: {"inv": INV_RR_INNER, "kinds": {"ranges": "pair"}}},
    frame=[])

# reduce_chars(ranges, chars): characters that lie inside / next to a range are absorbed by it
INV_RC_OUTER = ("0 <= i and i <= LEN(chars) and WFR(ranges) and WFC(chars) and "
                "VEQ(VU(RV(ranges), CV(chars)), VU(RV(ARGS['ranges']), CV(ARGS['chars'])))")
INV_RC_INNER = ("LSAME(ranges, ENTRY['ranges']) and LSAME(chars, ENTRY['chars']) and i == ENTRY['i']")
C[K + "__or.<locals>.reduce_chars"] = dict(
    params={"ranges": "rangestrs", "chars": "charlist"}, requires="WFR(ranges) and WFC(chars)", raises={}, lists="concrete",
    ensures="WFR(result[0]) and WFC(result[1]) and VEQ(VU(RV(result[0]), CV(result[1])), VU(RV(ranges), CV(chars)))",
    returns="fresh_abs", result_shape=("range", "char"),
    loops={1: {"inv": INV_RC_OUTER, "kinds": {"ranges": "pair", "chars": "char"}},
           2: {"inv": INV_RC_INNER, "kinds": {"ranges": "pair", "chars": "char"}}},
    frame=[])

# subtract_ranges(ranges1, ranges2): the ranges / characters left of ranges1 after removing every range of ranges2
INV_SR_OUTER = ("0 <= i and i <= LEN(ranges1) and WFR(ranges1) and WFR(ranges2) and "
                "VEQ(VM(RV(ranges1), RV(ranges2)), VM(RV(ARGS['ranges1']), RV(ARGS['ranges2']))) and "
                "RDISJ(ranges1, i, ranges2, LEN(ranges2))")
INV_SR_INNER = ("LSAME(ranges1, ENTRY['ranges1']) and i == ENTRY['i'] and RDISJ_ONE(ranges2, K, start_1, end_1)")
INV_SR_FINAL = ("VEQ(VU(RV(ranges), CV(chars)), PREFIXV(ranges1, K)) and WFC(chars) and WFR(ranges)")
C[K + "__sub.<locals>.subtract_ranges"] = dict(
    params={"ranges1": "rangestrs", "ranges2": "rangestrs"}, requires="WFR(ranges1) and WFR(ranges2)", raises={}, lists="concrete",
    ensures="WFR(result[0]) and WFC(result[1]) and VEQ(VU(RV(result[0]), CV(result[1])), VM(RV(ranges1), RV(ranges2)))",
    returns="fresh_abs", result_shape=("range", "char"),
    loops={1: {"inv": INV_SR_OUTER, "kinds": {"ranges1": "pair"}},
           2: {"inv": INV_SR_INNER, "kinds": {"ranges1": "pair"}},
           3: {"inv": INV_SR_FINAL, "kinds": {"ranges": "rangestr", "chars": "char"}}},
    frame=[])


# ---- G8b: the orchestration of the core operations over the interval core -------------------------------------------
# Python sets of class items are tracked by the set of code points they denote (abstract sets); what a bracket text lists
# is the uninterpreted TV(text), linked to the item sets by the assumed contracts of the text layer:
#   __extract_classes(t, unescape=True) = (R, Cs) with  TV(t) = RV(R) u CV(Cs), items unescaped and well formed
#   __modify_classes(S, escape=True) = E with  TV('[' + ''.join(E) + ']') = TV('[^' + ''.join(E) + ']') = view(S)
#   __Class.__init__(t, neg, sw): TV(verbose of the instance) = TV(t)                       (what __process keeps)
KC = "pregex.core.classes."
C[K + "__extract_classes"] = dict(params={"pattern": "text", "unescape": "bool"}, raises={},
                                  returns="extract_classes", assumed=True)
C[K + "__modify_classes"] = dict(params={"classes": "text", "escape": "bool"}, raises={},
                                 returns="modify_classes", assumed=True)
C[KC + "AnyWordChar._is_global"] = dict(inline=True)
C[KC + "AnyButWordChar._is_global"] = dict(inline=True)
CLS_KINDS = ["classobj:Class", "classobj:Token", "classobj:Any", "classobj:Word", "classobj:ButWord"]

# __chars_to_ranges(ranges, chars): adjacent characters are merged into runs (work list of one- / two-character strings),
# runs of more than two characters become ranges; together ranges and characters denote what they denoted before
INV_CR_OUTER = ("0 <= i and i <= LEN(chars) and WFRUN(chars) and VEQ(RUNV(chars), EV(ARGS['chars']))")
INV_CR_INNER = ("RSAME(chars, ENTRY['chars']) and i == ENTRY['i']")
INV_CR_FINAL = ("WFR(ranges_set) and WFC(chars_set) and "
                "VEQ(VU(RV(ranges_set), CV(chars_set)), VU(RV(ranges), PREFIXRUNV(chars, K)))")
C[K + "__chars_to_ranges"] = dict(
    params={"ranges": "absranges", "chars": "abschars"}, raises={},
    ensures="VEQ(VU(EV(result[0]), EV(result[1])), VU(EV(ranges), EV(chars)))",
    loops={1: {"inv": INV_CR_OUTER, "kinds": {"chars": "run"}},
           2: {"inv": INV_CR_INNER, "kinds": {"chars": "run"}},
           3: {"inv": INV_CR_FINAL, "kinds": {"ranges_set": "rangestr", "chars_set": "char"}}},
    enumerate_sets="runs", lists="concrete", returns="fresh_abs", result_shape=("range", "char"), result_escaped=True, frame=[])

# __process(text, neg, simplify_word) -> (verbose text, simplified text): the verbose text lists exactly what the given
# bracket text lists (relative to: __extract_classes parses the items, printing escaped items between brackets is faithful
# (R7), __chars_to_ranges - proved - keeps the denotation); nothing is claimed here about the simplified text
C[K + "__verbose_to_shorthand"] = dict(params={"classes": "text", "simplify_word": "bool"}, raises={}, returns="shorthand", assumed=True)
C[K + "__process"] = dict(
    params={"pattern": "bracket", "is_negated": "bool", "simplify_word": "bool"}, raises={},
    ensures="(SAME_TEXT(result[0], '.') and SAME_TEXT(result[1], '.')) if pattern == '.' else VEQ(TV(result[0]), TV(pattern))",
    returns="process", frame=[],
    # shape of the text (all callers inside the library satisfy it: G9's CESC, the named classes' literals): a bracket text whose
    # only escapes are \\ \^ \[ \] \- \/ - an item such as \n (backslash, letter) would be read as a run of two characters
    requires_rt="CLASS_TEXT_WF(pattern)")
