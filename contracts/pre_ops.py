"""G2 operators and G4 assertions of Pregex (C01, C02, C05, C09, C10).  Every post-condition compares the emitted text,
as parsed by CPython's parser, with the FULLY PARENTHESISED composition of the operands (property C02), for every
inferred type of each operand and every syntactic category the class invariant allows for that type; plain strings
enter only as ESC(s) (C01); empty operands obey the neutrality laws (C05)."""
P = "pregex.core.pre.Pregex."
C = {}
TYPEERR = {"InvalidArgumentTypeException": "BADPRE(pre)"}

C[P + "_to_pregex"] = dict(
    params={"pre": "pre"}, raises=TYPEERR,
    ensures="SAME_TEXT(TEXT(result), TEXT(pre)) if PREGEX(pre) else (SAME_TEXT(TEXT(result), ESC(pre)) and IMPLIES(pre == '', EMPTY(result)))",
    returns="to_pregex", frame=[])

C[P + "concat"] = dict(
    params={"self": "self", "pre": "pre", "on_right": "bool"}, raises=TYPEERR,
    ensures="SAME_TREE(TEXT(result), REF_CONCAT(self, pre, on_right)) and IMPLIES(ISEMPTY(pre), SAME_TEXT(TEXT(result), TEXT(self)))",
    returns="pregex", ref="REF_CONCAT(self, pre, on_right)", returns_self_if="ISEMPTY(pre)", frame=[])

C[P + "either"] = dict(
    params={"self": "self", "pre": "pre", "on_right": "bool"}, raises=TYPEERR,
    ensures="SAME_TREE(TEXT(result), REF_EITHER(self, pre, on_right)) and IMPLIES(ISEMPTY(pre), SAME_TEXT(TEXT(result), TEXT(self)))",
    returns="pregex", ref="REF_EITHER(self, pre, on_right)", frame=[])

C[P + "enclose"] = dict(
    params={"self": "self", "pre": "pre"}, raises=TYPEERR,
    ensures="SAME_TREE(TEXT(result), REF_ENCLOSE(self, pre))",
    returns="pregex", ref="REF_ENCLOSE(self, pre)", frame=[])

C[P + "__add__"] = dict(
    params={"self": "self", "pre": "pre"}, raises=TYPEERR,
    ensures="SAME_TREE(TEXT(result), REF_CONCAT(self, pre, True))",
    returns="pregex", ref="REF_CONCAT(self, pre, True)", frame=[])

C[P + "__radd__"] = dict(
    params={"self": "self", "pre": "pre"}, raises=TYPEERR,
    ensures="SAME_TREE(TEXT(result), REF_CONCAT(self, pre, False))",
    returns="pregex", ref="REF_CONCAT(self, pre, False)", frame=[])

# ---- anchors --------------------------------------------------------------------------------------------
for name, before, after in (("match_at_start", "\\\\A", ""), ("match_at_end", "", "\\\\Z"),
                            ("match_at_line_start", "^", ""), ("match_at_line_end", "", "$")):
    ref = f"'{before}' + G(self) + '{after}'"
    C[P + name] = dict(params={"self": "self"}, raises={}, ensures=f"SAME_TREE(TEXT(result), {ref})",
                       returns="pregex", ref=ref, frame=[])

# ---- look-arounds ---------------------------------------------------------------------------------------
NFW = "not BADPRE(pre) and not ISEMPTY(pre) and not FIXEDW(OT(pre))"
LOOK = {
    "followed_by": ("", "(?=", False, False),
    "preceded_by": ("(?<=", "", False, True),
    "enclosed_by": ("(?<=", "(?=", False, True),
    "not_followed_by": ("", "(?!", True, False),
    "not_preceded_by": ("(?<!", "", True, True),
    "not_enclosed_by": ("(?<!", "(?!", True, True),
}
for name, (before, after, negative, behind) in LOOK.items():
    raises = dict(TYPEERR)
    if negative:
        raises["EmptyNegativeAssertionException"] = "not BADPRE(pre) and ISEMPTY(pre)"
    if behind:
        raises["NonFixedWidthPatternException"] = NFW
    ref = f"REF_LOOK(self, pre, '{before}', '{after}')"
    ens = f"SAME_TREE(TEXT(result), {ref})"
    c = dict(params={"self": "self", "pre": "pre"}, raises=raises, returns="pregex", frame=[])
    if negative:
        c.update(ensures=ens, ref=ref)
    else:
        c.update(ensures=f"(SAME_TEXT(TEXT(result), TEXT(self))) if ISEMPTY(pre) else {ens}", ref=f"OT(self) if ISEMPTY(pre) else {ref}",
                 returns_self_if="ISEMPTY(pre)")
    C[P + name] = c

C[P + "__is_fixed_width"] = dict(
    params={"pattern": "text"}, raises={}, ensures="result == FIXEDW(pattern)", returns="expr", result="FIXEDW(pattern)",
    frame=[])
