"""Contracts of the small protected / private helpers of Pregex (exact: result equals a field or a table entry)."""
P = "pregex.core.pre.Pregex."
C = {}

C[P + "_get_type"] = dict(params={"self": "self"}, ensures="result == TYPEV(self)", returns="expr", result="TYPEV(self)",
                          frame=[])
C[P + "_is_repeatable"] = dict(params={"self": "self"}, ensures="result == REPEATABLE(self)", returns="expr",
                               result="REPEATABLE(self)", frame=[])
C[P + "__str__"] = dict(params={"self": "self"}, ensures="SAME_TEXT(result, TEXT(self))", returns="expr",
                        result="TEXT(self)", frame=[])
for i, nm in enumerate(["concat", "quantify", "assert"]):
    C[P + f"__get_group_on_{nm}_rule"] = dict(params={"self": "self"}, ensures=f"result == RULE(self, {i})",
                                              returns="expr", result=f"RULE(self, {i})", frame=[])
    C[P + f"_{nm}_conditional_group"] = dict(params={"self": "self"},
                                             ensures=f"SAME_TEXT(result, COND_GROUP(self, {i}))",
                                             returns="expr", result=f"COND_GROUP(self, {i})", frame=[])

# construction of a Pregex from text (the constructor's contract as seen by callers)
C["new:pregex.core.pre.Pregex"] = dict(
    params={"pattern": "str", "escape": "bool"},
    raises={"InvalidArgumentTypeException": "not STRV(pattern)"},
    returns="newpregex")
