"""G1 - the quantifier lattice (C04, C05, C09).  Post-conditions come from the property statements: the result
denotes REP(operand, lo, hi, lazy) - compared as parse trees against the fully parenthesised reference, integer
bounds compared by the solver for all integers - and exceptions are raised iff documented (type errors before
value errors before repeatability)."""
P = "pregex.core.pre.Pregex."
C = {}

NOREP = "not EMPTY(self) and not REPEATABLE(self)"

C[P + "optional"] = dict(
    params={"self": "self", "is_greedy": "bool"}, raises={},
    ensures="SAME_TREE(TEXT(result), REF_QUANT(self, 0, 1, not is_greedy)) and IMPLIES(EMPTY(self), SAME_TEXT(TEXT(result), TEXT(self)))",
    returns="pregex", ref="REF_QUANT(self, 0, 1, not is_greedy)", returns_self_if="EMPTY(self)", frame=[])

C[P + "indefinite"] = dict(
    params={"self": "self", "is_greedy": "bool"},
    raises={"CannotBeRepeatedException": NOREP},
    ensures="SAME_TREE(TEXT(result), REF_QUANT(self, 0, None, not is_greedy)) and IMPLIES(EMPTY(self), SAME_TEXT(TEXT(result), TEXT(self)))",
    returns="pregex", ref="REF_QUANT(self, 0, None, not is_greedy)", returns_self_if="EMPTY(self)", frame=[])

C[P + "one_or_more"] = dict(
    params={"self": "self", "is_greedy": "bool"},
    raises={"CannotBeRepeatedException": NOREP},
    ensures="SAME_TREE(TEXT(result), REF_QUANT(self, 1, None, not is_greedy)) and IMPLIES(EMPTY(self), SAME_TEXT(TEXT(result), TEXT(self)))",
    returns="pregex", ref="REF_QUANT(self, 1, None, not is_greedy)", returns_self_if="EMPTY(self)", frame=[])

EXACT_RAISES = {
    "InvalidArgumentTypeException": "not INT(n)",
    "InvalidArgumentValueException": "INT(n) and n < 0",
    "CannotBeRepeatedException": "INT(n) and n > 1 and " + NOREP,
}

C[P + "exactly"] = dict(
    params={"self": "self", "n": "dyn"}, raises=EXACT_RAISES,
    ensures="SAME_TREE(TEXT(result), REF_QUANT(self, n, n, False)) and IMPLIES(n == 1, SAME_TEXT(TEXT(result), TEXT(self)))",
    returns="pregex", ref="REF_QUANT(self, n, n, False)", returns_self_if="n == 1 or (EMPTY(self) and n != 0)", frame=[])

for op in ("__mul__", "__rmul__"):
    C[P + op] = dict(
        params={"self": "self", "n": "dyn"}, raises=EXACT_RAISES,
        ensures="SAME_TREE(TEXT(result), REF_QUANT(self, n, n, False))",
        returns="pregex", ref="REF_QUANT(self, n, n, False)", frame=[])

C[P + "at_least"] = dict(
    params={"self": "self", "n": "dyn", "is_greedy": "bool"},
    raises={"InvalidArgumentTypeException": "not INT(n)",
            "InvalidArgumentValueException": "INT(n) and n < 0",
            "CannotBeRepeatedException": "INT(n) and n >= 0 and " + NOREP},
    ensures="SAME_TREE(TEXT(result), REF_QUANT(self, n, None, not is_greedy))",
    returns="pregex", ref="REF_QUANT(self, n, None, not is_greedy)", returns_self_if="EMPTY(self)", frame=[])

C[P + "at_most"] = dict(
    params={"self": "self", "n": "dyn", "is_greedy": "bool"},
    raises={"InvalidArgumentTypeException": "not INT(n) and not NONE(n)",
            "InvalidArgumentValueException": "INT(n) and n < 0",
            "CannotBeRepeatedException": "(NONE(n) or (INT(n) and n > 1)) and " + NOREP},
    ensures="SAME_TREE(TEXT(result), REF_QUANT(self, 0, n, not is_greedy))",
    returns="pregex", ref="REF_QUANT(self, 0, n, not is_greedy)", returns_self_if="EMPTY(self) and (NONE(n) or n != 0)", frame=[])

VALID_NM = "INT(n) and (INT(m) or NONE(m))"
C[P + "at_least_at_most"] = dict(
    params={"self": "self", "n": "dyn", "m": "dyn", "is_greedy": "bool"},
    raises={"InvalidArgumentTypeException": "not INT(n) or (not INT(m) and not NONE(m))",
            "InvalidArgumentValueException": VALID_NM + " and (n < 0 or (INT(m) and (m < 0 or m < n)))",
            "CannotBeRepeatedException": VALID_NM + " and n >= 0 and (NONE(m) or (m >= n and m > 1)) and " + NOREP},
    ensures="SAME_TREE(TEXT(result), REF_QUANT(self, n, m, not is_greedy))",
    returns="pregex", ref="REF_QUANT(self, n, m, not is_greedy)", frame=[])
