"""G3 - capture() / group() (C08).  Operands typed Group carry one of the shapes the class invariant lists:
nc (?:B)   nci (?i:B)   cap (B)   named (?P<N>B)   neglook (?!B) / (?<!B)   cond (?(N)B)   bref (?P=N)
The post-condition is the group structure the property spells out, as a reference text compared by CPython's parser
(number, order and names of capturing groups included)."""
P = "pregex.core.pre.Pregex."
C = {}
GSELF = ["Alternation", "Assertion", "Class", "Empty", "Other", "Quantifier", "Token",
         "Group:nc", "Group:nci", "Group:cap", "Group:named", "Group:neglook", "Group:neglookbehind", "Group:cond", "Group:bref"]

C[P + "capture"] = dict(
    params={"self": GSELF, "name": "optname"},
    raises={"InvalidArgumentTypeException": "not NONE(name) and not STRV(name)",
            "InvalidCapturingGroupNameException": "STRV(name) and not VALIDNAME(name)"},
    ensures="SAME_TREE(TEXT(result), REF_CAPTURE(self, name)) and IMPLIES(EMPTY(self), SAME_TEXT(TEXT(result), TEXT(self)))",
    returns="pregex", ref="REF_CAPTURE(self, name)", returns_self_if="EMPTY(self)", atomic=True, frame=[])

C[P + "group"] = dict(
    params={"self": GSELF, "is_case_insensitive": "bool"}, raises={},
    ensures="SAME_TREE(TEXT(result), REF_GROUP(self, is_case_insensitive)) and IMPLIES(EMPTY(self), SAME_TEXT(TEXT(result), TEXT(self)))",
    returns="pregex", ref="REF_GROUP(self, is_case_insensitive)", returns_self_if="EMPTY(self)", atomic=True, frame=[])
