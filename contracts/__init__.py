"""Sidecar contracts on the real functions of manoss96/pregex, keyed by qualified name (pure data: importable both by
the verifier and by the run-time / bounded checker).  Clauses are python expressions over the parameters, `result`,
and the spec functions of contracts/spec_helpers.py and pvc/specsym.py (symbolic) / pvc/specrt.py (concrete)."""
from . import pre_core, pre_quant, pre_ops, pre_match, pre_groups, wrappers, classes_iv, classes_ctor, meta

ALL = {}
for _m in (pre_core, pre_quant, pre_ops, pre_match, pre_groups, wrappers, classes_iv, classes_ctor, meta):
    ALL.update(_m.C)
