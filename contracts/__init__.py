"""Sidecar contracts on the real functions of manoss96/pregex, keyed by qualified name (pure data: importable both by
the verifier and by the run-time / bounded checker).  Clauses are python expressions over the parameters, `result`,
and the spec functions of contracts/spec_helpers.py and pvc/specsym.py (symbolic) / pvc/specrt.py (concrete)."""
from . import pre_core, pre_quant, pre_ops, pre_match, pre_groups, wrappers, classes_iv, classes_ctor, meta, exc

ALL = {}
for _m in (pre_core, pre_quant, pre_ops, pre_match, pre_groups, wrappers, classes_iv, classes_ctor, meta, exc):
    ALL.update(_m.C)

# A clause "the constructed instance has the TEXT of this chain of operations" (class forms, meta constructors) is stronger
# than any property, which speak about matching: when such a clause stops verifying, the languages of the emitted pattern and
# of the chain are compared, for all texts, over the argument pools before anything is reported (pvc/vcrun.py
# semantic_fallback); equal languages => no violation, the evidence lists the clause as no longer proved.
for _q, _c in ALL.items():
    if isinstance(_c.get("value"), str) and isinstance(_c.get("ensures"), str) and _c["ensures"].startswith("SAME_TEXT(TEXT(self)") \
            and " and " not in _c["ensures"]:
        _c["semantic_fallback"] = True
