"""Frame scan (E8, DESIGN 8/C20): every place in the package that can change the state of an existing object.

Enumerated syntactically over the whole source tree on every run - attribute stores (incl. augmented and tuple targets),
setattr / delattr / __dict__ / __setattr__ uses, `global` / `nonlocal`, del of attributes, mutating method calls on
attribute values, stores into class-level tables - and compared with the allowed list (the fields a contract's `frame`
clause names).  Anything else is a violation of the immutability of Pregex values."""
import ast
from .extract import Index, mangle

ALLOWED = {
    ("pregex.core.pre.Pregex.__init__", "_Pregex__pattern"), ("pregex.core.pre.Pregex.__init__", "_Pregex__type"),
    ("pregex.core.pre.Pregex.__init__", "_Pregex__repeatable"), ("pregex.core.pre.Pregex.__init__", "_Pregex__compiled"),
    ("pregex.core.pre.Pregex.compile", "_Pregex__compiled"), ("pregex.core.pre.Pregex.get_compiled_pattern", "_Pregex__compiled"),
    ("pregex.core.classes.__Class.__init__", "_Class__is_negated"), ("pregex.core.classes.__Class.__init__", "_Class__verbose"),
    ("pregex.core.classes.AnyWordChar.__init__", "_AnyWordChar__is_global"),
    ("pregex.core.classes.AnyButWordChar.__init__", "_AnyButWordChar__is_global"),
}
MUTATORS = {"append", "extend", "pop", "remove", "insert", "clear", "update", "add", "discard", "sort", "reverse", "setdefault", "popitem"}


def scan(idx=None):
    idx = idx or Index()
    stores, suspicious = [], []
    for q, fi in idx.funcs.items():
        if "<locals>" in q:
            owner = q.split(".<locals>")[0]
        else:
            owner = q
        cls = fi.cls
        for n in ast.walk(fi.node):
            if isinstance(n, ast.Attribute) and isinstance(n.ctx, (ast.Store, ast.Del)):
                stores.append((owner, mangle(n.attr, cls), n.lineno, ast.unparse(n.value)))
            elif isinstance(n, (ast.Global, ast.Nonlocal)):
                suspicious.append((owner, n.lineno, "global/nonlocal " + ", ".join(n.names)))
            elif isinstance(n, ast.Call):
                f = n.func
                if isinstance(f, ast.Name) and f.id in ("setattr", "delattr"):
                    suspicious.append((owner, n.lineno, ast.unparse(n)[:80]))
                if isinstance(f, ast.Attribute):
                    if f.attr in ("__setattr__", "__delattr__"):
                        suspicious.append((owner, n.lineno, ast.unparse(n)[:80]))
                    # mutating call on an attribute of some object (x.y.append(..)) or on a class-level table
                    if f.attr in MUTATORS and isinstance(f.value, ast.Attribute):
                        suspicious.append((owner, n.lineno, "mutating call on a field: " + ast.unparse(n)[:80]))
            elif isinstance(n, ast.Subscript) and isinstance(n.ctx, (ast.Store, ast.Del)) and isinstance(n.value, ast.Attribute):
                suspicious.append((owner, n.lineno, "store into a field's item: " + ast.unparse(n)[:80]))
            elif isinstance(n, ast.Attribute) and n.attr == "__dict__":
                suspicious.append((owner, n.lineno, "__dict__ access"))
    # class bodies: anything besides constants / defs
    bad = [(o, a, ln, tgt) for (o, a, ln, tgt) in stores if (o, a) not in ALLOWED or tgt != "self"]
    return {"stores": stores, "not_allowed": bad, "suspicious": suspicious}
