"""B4 - bounded stand-in for the contract of Pregex.__repr__ / get_pattern (native):
the exported text is printable and compiles to the same regex as the internal pattern (parse trees equal under
CPython's parser).  Domain: literals and classes over 'nasty' characters (control characters, quotes, backslash runs,
non-BMP, combining marks) and one DSL step on them; user-written regexes (escape=False) with an escaped nasty character."""
import itertools, random, re
from . import native as N

NASTY = ["\x00", "\x07", "\x1b", "\x7f", "'", '"', "\\", "\n", "\t", "\r", "\x0b", "\x0c", "\x85", "\xa0", " ", "é", "😀", "́",
         "a", "$", "[", "]", "-", "^", " ", "/", "\x80", "﻿"]


def trees_equal(a, b):
    N.install_noopt()
    ra, rb = N.parse({"patterns": [a, b]})
    if "error" in ra or "error" in rb:
        return False, (ra.get("error"), rb.get("error"))
    return ra["tree"] == rb["tree"], None


def run(tier="quick", seed=0):
    ns = N.pregex_ns()
    rnd = random.Random(seed)
    exprs = []
    for c in NASTY:
        exprs.append("Pregex(%r)" % c)
        exprs.append("AnyFrom(%r)" % c)
        exprs.append("AnyButFrom(%r, 'q')" % c)
    pairs = list(itertools.product(NASTY, repeat=2))
    for a, b in (pairs if tier == "thorough" else rnd.sample(pairs, 250)):
        exprs.append("Pregex(%r)" % (a + b))
        if a != b:
            exprs.append("AnyFrom(%r, %r)" % (a, b))
            if ord(a) < ord(b):
                exprs.append("AnyBetween(%r, %r)" % (a, b))
    for _ in range(200 if tier == "quick" else 3000):
        s = "".join(rnd.choice(NASTY) for _ in range(rnd.randint(3, 6)))
        exprs.append("Pregex(%r)" % s)
        exprs.append("Optional(Pregex(%r)) + AnyFrom(%r, %r)" % (s, rnd.choice(NASTY), rnd.choice(NASTY)))
        exprs.append("Capture(Either(%r, %r), 'n') + Newline() + Backslash()" % (s, rnd.choice(NASTY)))
    # user-written regexes (escape=False): an escaped nasty character, alone, in a class, next to quotes / other nasty characters
    raw = []
    for c in NASTY:
        raw += ["\\" + c, "[\\" + c + "x]", "\\" + c + "'\"", "a\\\\" + c, "\\" + c + "{2}"]
    for a, b in (pairs if tier == "thorough" else rnd.sample(pairs, 150)):
        raw += ["\\" + a + b, a + "\\" + b, "[" + "\\" + a + "\\" + b + "]"]
    for s in raw:
        try:
            re.compile(s, re.M | re.S)
        except (re.error, RecursionError, OverflowError):
            continue
        exprs.append("Pregex(%r, escape=False)" % s)
    fails = []
    n = 0
    for e in exprs:
        try:
            p = eval(e, ns)
        except Exception as ex:
            continue
        n += 1
        g = p.get_pattern()
        why = None
        if not g.isprintable():
            why = "exported text is not printable"
        else:
            try:
                re.compile(g, re.M | re.S)
            except re.error as err:
                why = f"exported text does not compile: {err}"
            if why is None:
                eq, err = trees_equal(g, str(p))
                if not eq:
                    why = "exported text compiles to a different regex" + (f" ({err})" if err else "")
            if why is None:
                q = eval(e, ns)
                q.compile()
                for t in ("".join(NASTY), e, str(p)):
                    if q.get_matches(t) != p.get_matches(t) or q.is_exact_match(t) != p.is_exact_match(t):
                        why = "compiled instance matches differently"
        if why:
            fails.append({"expr": e, "pattern": str(p), "exported": g, "what": why})
    return {"evaluations": n, "failures": fails[:30], "n_failures": len(fails)}
