"""Mechanical extraction of the functions under contract from $PVC_REPO/src/pregex on every run (DESIGN 3.1).

What is dropped: docstrings, comments, annotations (no run-time meaning).  Name mangling is resolved as CPython does.
Class-level / module-level *constants* (grouping-rule table, flags, _to_escape, date separators, string.whitespace)
are read from the imported real module (pure python, importable under the engine's interpreter)."""
import ast, hashlib, importlib, os, sys, warnings
from .common import SRC, CheckerError

MODULES = ["pregex.core.exceptions", "pregex.core.pre", "pregex.core.classes", "pregex.core.tokens",
           "pregex.core.operators", "pregex.core.quantifiers", "pregex.core.groups", "pregex.core.assertions",
           "pregex.meta.essentials"]


class FuncInfo:
    def __init__(self, qualname, node, cls, module, static, source):
        self.qualname, self.node, self.cls, self.module, self.static = qualname, node, cls, module, static
        self.source_hash = hashlib.sha256(source.encode()).hexdigest()[:16]
        self.params = [a.arg for a in node.args.args]
        self.vararg = node.args.vararg.arg if node.args.vararg else None
        self.defaults = node.args.defaults
        self.nested = {}
        self.is_generator = any(isinstance(n, (ast.Yield, ast.YieldFrom)) for n in walk_own(node))

    def __repr__(self):
        return f"<FuncInfo {self.qualname}>"


def walk_own(fn):
    """walk a function body without descending into nested function definitions"""
    stack = list(fn.body)
    while stack:
        n = stack.pop()
        if isinstance(n, (ast.FunctionDef, ast.AsyncFunctionDef)):
            continue            # a nested definition among the function's own statements
        yield n
        for ch in ast.iter_child_nodes(n):
            if isinstance(ch, (ast.FunctionDef, ast.AsyncFunctionDef)):
                continue
            stack.append(ch)


class ClassInfo:
    def __init__(self, name, module, node):
        self.name, self.module, self.node = name, module, node
        self.base_exprs = node.bases
        self.bases = []          # resolved ClassInfo list
        self.methods = {}
        self.pyobj = None

    def mro(self):
        out, seen = [], set()

        def go(c):
            if c in seen:
                return
            seen.add(c)
            out.append(c)
            for b in c.bases:
                go(b)
        go(self)
        return out

    def find_method(self, name, after=None):
        m = self.mro()
        if after is not None:
            m = m[m.index(after) + 1:]
        for c in m:
            if name in c.methods:
                return c.methods[name]
        return None

    def is_subclass_of(self, other):
        return other in self.mro()

    def __repr__(self):
        return f"<ClassInfo {self.module.name}.{self.name}>"


class ModuleInfo:
    def __init__(self, name, path, tree, text):
        self.name, self.path, self.tree, self.text = name, path, tree, text
        self.classes, self.functions, self.aliases = {}, {}, {}
        self.pyobj = None


class Index:
    def __init__(self):
        self.modules, self.funcs = {}, {}
        with warnings.catch_warnings():
            warnings.simplefilter("ignore")
            if SRC not in sys.path:
                sys.path.insert(0, SRC)
            for k in [k for k in sys.modules if k == "pregex" or k.startswith("pregex.")]:
                del sys.modules[k]
            for m in MODULES:
                self.load(m)
        for mod in self.modules.values():
            for c in mod.classes.values():
                for b in c.base_exprs:
                    bi = self.resolve_class(mod, b)
                    if bi is not None:
                        c.bases.append(bi)

    def load(self, name):
        path = os.path.join(SRC, *name.split(".")) + ".py"
        text = open(path, encoding="utf-8").read()
        with warnings.catch_warnings():
            warnings.simplefilter("ignore")
            tree = ast.parse(text)
            mod = ModuleInfo(name, path, tree, text)
            mod.pyobj = importlib.import_module(name)
        self.modules[name] = mod
        for node in tree.body:
            if isinstance(node, ast.Import):
                for a in node.names:
                    mod.aliases[a.asname or a.name] = ("module", a.name)
            elif isinstance(node, ast.ImportFrom):
                for a in node.names:
                    mod.aliases[a.asname or a.name] = ("from", node.module, a.name)
            elif isinstance(node, ast.ClassDef):
                ci = ClassInfo(node.name, mod, node)
                ci.pyobj = getattr(mod.pyobj, node.name, None)
                mod.classes[node.name] = ci
                for item in node.body:
                    if isinstance(item, ast.FunctionDef):
                        static = any(isinstance(d, ast.Name) and d.id == "staticmethod" for d in item.decorator_list)
                        fi = self.mkfunc(f"{name}.{node.name}.{item.name}", item, ci, mod, static)
                        ci.methods[item.name] = fi
                        ci.methods[mangle(item.name, ci)] = fi
            elif isinstance(node, ast.FunctionDef):
                fi = self.mkfunc(f"{name}.{node.name}", node, None, mod, True)
                mod.functions[node.name] = fi

    def mkfunc(self, qualname, node, cls, mod, static):
        seg = ast.get_source_segment(mod.text, node) or ast.dump(node)
        fi = FuncInfo(qualname, node, cls, mod, static, seg)
        self.funcs[qualname] = fi
        for sub in walk_own(node):
            pass
        for item in node.body:
            self._nested(fi, item, qualname, cls, mod)
        return fi

    def _nested(self, parent, item, qualname, cls, mod):
        if isinstance(item, ast.FunctionDef):
            q = f"{qualname}.<locals>.{item.name}"
            seg = ast.get_source_segment(mod.text, item) or ast.dump(item)
            fi = FuncInfo(q, item, cls, mod, True, seg)
            parent.nested[item.name] = fi
            self.funcs[q] = fi
            for sub in item.body:
                self._nested(fi, sub, q, cls, mod)

    def resolve_class(self, mod, expr):
        if isinstance(expr, ast.Name):
            if expr.id in mod.classes:
                return mod.classes[expr.id]
            return None
        if isinstance(expr, ast.Attribute) and isinstance(expr.value, ast.Name):
            al = mod.aliases.get(expr.value.id)
            if al and al[0] == "module" and al[1] in self.modules:
                return self.modules[al[1]].classes.get(expr.attr)
        return None

    def func(self, qualname):
        if qualname not in self.funcs:
            raise CheckerError(f"function under contract not found in the source tree: {qualname}")
        return self.funcs[qualname]


def mangle(name, cls):
    if cls is not None and name.startswith("__") and not name.endswith("__"):
        return "_" + cls.name.lstrip("_") + name
    return name
