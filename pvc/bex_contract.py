"""Native (CPython 3.12 + real pregex): check a contract on concrete arguments by calling the REAL function.

Used for (a) replaying the verifier's counter-models, (b) the bounded stand-in of a contract when the verifier cannot
process the function's current source (checker limitation), (c) the concrete-mode cross-check of the contracts.
"""
import importlib, itertools, random, traceback
from . import specrt

LIB_EXC = None


def lib_exceptions():
    global LIB_EXC
    if LIB_EXC is None:
        ex = importlib.import_module("pregex.core.exceptions")
        LIB_EXC = {k: v for k, v in vars(ex).items() if isinstance(v, type) and issubclass(v, Exception)}
    return LIB_EXC


def ns():
    from .native import pregex_ns
    install_ghosts()        # before any witness is built, so that every class instance carries its ghost fields
    return pregex_ns()


WITNESS_EXPRS = {
    "Alternation": ["Pregex('a|bc', escape=False)", "Either('x', 'yz', AnyDigit())"],
    "Assertion": ["MatchAtStart('a')", "FollowedBy('a', 'b')", "NotPrecededBy('a', 'b')", "WordBoundary()",
                  "MatchAtLineEnd('ab')", "NotFollowedBy('ab', 'c')"],
    "Class": ["AnyLetter()", "AnyFrom('x', '-')", "Any()", "AnyButDigit()"],
    "Empty": ["Pregex()"],
    "Group": ["Group('ab')", "Capture('ab')", "Capture('a', 'nm')", "Group('ab', is_case_insensitive=True)",
              "Capture('ab', 'größe')", "Capture(Capture('a', 'x') + 'b', 'naïve')", "Capture(Capture('a', 'x') + 'b', 'y')",
              "NotFollowedBy(Pregex(), 'b')", "Conditional('x', 'a', 'b')", "Backreference('x')", "Group(Capture('a', 'in') + 'b')",
              # literals that look like group syntax (C08's quantifier names them)
              "Group('a?:b')", "Group('(?P<x>')", "Capture('?:(', 'k')", "Group('x(?:y)', is_case_insensitive=True)",
              "Group(Group('a?:') + '?:')", "Capture('(?P<q>')"],
    "Other": ["Pregex('ab')", "Pregex('a') + AnyDigit()", "Optional('a') + 'b'"],
    "Quantifier": ["Optional('a')", "AtLeastAtMost('ab', 2, 3)", "Indefinite(AnyDigit(), is_greedy=False)"],
    "Token": ["Pregex('a')", "Pregex('.')", "Backslash()", "Newline()"],
}


CLASS_WITNESSES = ["AnyLetter()", "AnyButDigit()", "AnyFrom('a')", "AnyFrom('.', '-')", "AnyButFrom('a', ']')", "AnyBetween('a', 'f')",
                   "AnyButBetween('0', '5')", "Any()", "AnyWordChar()", "AnyWordChar(is_global=True)", "AnyButWordChar(is_global=True)",
                   "AnyWhitespace()", "AnyFrom(Newline())", "~AnyFrom('x')", "AnyFrom('a', 'c', 'e', '1')", "AnyFrom('b', 'd', 'z')",
                   "AnyButFrom('b', 'c', 'k')"]


def witnesses(tname, repeatable=None):
    out = []
    n = ns()
    for e in WITNESS_EXPRS[tname]:
        p = eval(e, n)
        if p._get_type().name != tname:
            continue  # the witness library itself is checked by the B1 stand-in; skip what infer_type types differently
        if repeatable is not None and p._is_repeatable() != repeatable:
            continue
        out.append((e, p))
    return out


class _New:
    def __repr__(self):
        return "<new instance>"


NEW = _New()


def build_arg(desc):
    """desc: {'kind': 'int'|'bool'|'float'|'none'|'str'|'other'|'pregex'|'expr', ...} -> list of (label, value)"""
    k = desc["kind"]
    if k in ("int", "bool", "float", "str"):
        return [(repr(desc["value"]), desc["value"])]
    if k == "none":
        return [("None", None)]
    if k == "strs":
        return [(repr(v), v) for v in desc["values"]]
    if k == "other":
        return [("object()", specrt.Witness())]
    if k == "pregex":
        return witnesses(desc["type"], desc.get("repeatable"))
    if k == "selfc":
        return [(l, v) for l, v in pool_for("selfc") if l.startswith("compiled") == bool(desc.get("compiled"))]
    if k == "text":
        return pool_for("text")
    if k == "expr":
        return [(desc["expr"], eval(desc["expr"], ns()))]
    if k == "classobj":
        return pool_for("classobj")
    if k == "new":
        return [("<new instance>", NEW)]
    if k == "tuple":
        pools = [build_arg(d)[:3] for d in desc["items"]]
        return [("(" + ", ".join(l for l, _ in combo) + ("," if len(combo) == 1 else "") + ")", tuple(v for _, v in combo))
                for combo in itertools.product(*pools)]
    if k == "list":
        return [(repr(desc["value"]).replace("'<object>'", "object()"),
                 [specrt.Witness() if x == "<object>" else x for x in desc["value"]])]
    raise ValueError(k)


def resolve_nested(qualname):
    """a function nested in a method ('...Class.__or.<locals>.reduce_ranges'): rebuilt from the code object stored in the
    enclosing function's constants, with the `__class__` cell it closes over"""
    import types
    outer_q, _, inner = qualname.partition(".<locals>.")
    owner, outer = resolve(outer_q)
    outer = getattr(outer, "__func__", outer)
    outer = getattr(outer, "_pvc_orig", outer)        # the ghost-recording wrapper of install_ghosts()
    code = None
    for c in outer.__code__.co_consts:
        if isinstance(c, types.CodeType) and c.co_name == inner:
            code = c
    if code is None:
        raise ImportError(qualname)
    cells = []
    for fv in code.co_freevars:
        if fv == "__class__":
            cells.append(types.CellType(owner))
        else:
            raise ImportError(f"{qualname} closes over {fv}")
    return owner, types.FunctionType(code, outer.__globals__, inner, None, tuple(cells))


def resolve(qualname):
    """'pregex.core.pre.Pregex.exactly' -> (owner class or None, attribute name as stored on the class)"""
    if ".<locals>." in qualname:
        return resolve_nested(qualname)
    parts = qualname.split(".")
    for i in range(len(parts) - 1, 0, -1):
        try:
            mod = importlib.import_module(".".join(parts[:i]))
        except ImportError:
            continue
        rest = parts[i:]
        obj = mod
        owner = None
        for j, r in enumerate(rest):
            name = r
            if owner is not None and r.startswith("__") and not r.endswith("__"):
                name = "_" + owner.__name__.lstrip("_") + r
            nxt = getattr(obj, name)
            if isinstance(nxt, type):
                owner = nxt
            obj = nxt
        return owner, obj
    raise ImportError(qualname)


def install_ghosts():
    """ghost state of the contracts, recorded by a wrapper in this process only (the repository is not touched):
    CLASSARG(p) = the bracket text a class instance handed to __Class.__init__"""
    import pregex.core.classes as cl
    base = getattr(cl, "__Class")
    if getattr(base.__init__, "_pvc_ghost", False):
        return
    orig = base.__init__

    def init(self, pattern, is_negated, simplify_word=False):
        self._ghost_classarg = pattern
        return orig(self, pattern, is_negated, simplify_word)
    init._pvc_ghost = True
    base.__init__ = init
    # GHOSTOP(p) = (core operation, left operand, right operand) that produced a class
    for attr, opname in (("_Class__or", "or"), ("_Class__sub", "sub")):
        f0 = base.__dict__[attr]

        def core(pre1, pre2, f0=f0, opname=opname):
            r = f0(pre1, pre2)
            try:
                r._ghost_op = (opname, pre1, pre2)
            except AttributeError:
                pass
            return r
        core._pvc_orig = f0
        setattr(base, attr, core)


def call_real(qualname, args):
    owner, f = resolve(qualname)
    args = dict(args)
    import inspect
    install_ghosts()
    pos = []
    try:
        for pn, prm in inspect.signature(f).parameters.items():
            if prm.kind == inspect.Parameter.VAR_POSITIONAL and pn in args:
                pos = list(args.pop(pn))
    except (TypeError, ValueError):
        pass
    if "self" in args:
        recv = args.pop("self")
        r = f(recv, *pos, **args)
    else:
        r = f(*pos, **args)
    if inspect.isgenerator(r):
        r = list(r)          # E9: a generator function denotes the list of the values it yields
    return r


def check_call(qualname, contract, args):
    """returns dict(ok, why, observed).  args: name -> concrete value"""
    exc_names = set(lib_exceptions())
    raises = contract.get("raises", {})
    tmp = None
    if args.get("is_path") is True and isinstance(args.get("source"), str):
        # is_path: the text is written to a scratch UTF-8 file and the path is passed instead
        import os, tempfile
        d = os.path.join(os.path.dirname(os.path.dirname(os.path.abspath(__file__))), ".work")
        os.makedirs(d, exist_ok=True)
        fd, tmp = tempfile.mkstemp(suffix=".txt", dir=d)
        with os.fdopen(fd, "w", encoding="utf-8", newline="") as f:
            f.write(args["source"])
        args = dict(args)
        args["source"] = tmp
    try:
        return _check_call(qualname, contract, args, raises)
    finally:
        if tmp:
            import os
            os.remove(tmp)


def _check_call(qualname, contract, args, raises):
    if args.get("self") is NEW:
        owner, _ = resolve(qualname)
        args = dict(args)
        args["self"] = owner.__new__(owner)      # the constructor is checked as a function of a fresh instance
    env = dict(args)
    req = contract.get("requires")
    if req and not specrt.eval_clause(req, env):
        return {"ok": True, "skipped": "precondition false"}
    req_rt = contract.get("requires_rt")        # a precondition on the SHAPE of a text, stated for the run-time checks only
    if req_rt and not specrt.eval_clause(req_rt, env):
        return {"ok": True, "skipped": "precondition false"}
    try:
        import copy
        result = call_real(qualname, {k: (copy.deepcopy(v) if isinstance(v, (list, set)) else v) for k, v in args.items()})
        raised = None
    except BaseException as e:
        raised = e
        result = None
    expected = [c for c, cond in raises.items() if specrt.eval_clause(cond, env)]
    if raised is not None:
        name = type(raised).__name__
        if name in contract.get("may_raise", ()) and name not in expected:
            return {"ok": True, "outcome": name + " (allowed, condition unspecified)"}
        if name not in raises:
            return {"ok": False, "why": f"raised {name}, which the contract does not allow", "observed": f"{name}: {raised}"[:300]}
        if name not in expected:
            return {"ok": False, "why": f"raised {name} although its documented condition does not hold",
                    "observed": f"{name}: {raised}"[:300]}
        return {"ok": True, "outcome": name}
    if expected:
        return {"ok": False, "why": f"returned normally although {expected[0]} is documented for these arguments",
                "observed": _show(result)}
    ens = contract.get("ensures")
    if ens:
        env2 = dict(env)
        env2["result"] = result
        try:
            good = specrt.eval_clause(ens, env2)
        except ValueError as e:
            if "reference text does not parse" in str(e):
                return {"ok": True, "skipped": "the reference text itself is not a valid regex for these witnesses"}
            return {"ok": False, "why": f"post-condition could not be evaluated: {type(e).__name__}: {e}", "observed": _show(result)}
        except Exception as e:
            return {"ok": False, "why": f"post-condition could not be evaluated: {type(e).__name__}: {e}", "observed": _show(result)}
        if not good:
            return {"ok": False, "why": "post-condition false", "observed": _show(result)}
    return {"ok": True, "outcome": "normal", "observed": _show(result)}


def _show(v):
    try:
        s = str(v)
    except Exception:
        s = object.__repr__(v)
    return s[:300]


def replay(qualname, arg_descs):
    """arg_descs: name -> desc.  All combinations of the witnesses are tried; the first failing one is returned."""
    import contracts
    c = contracts.ALL[qualname]
    names = list(arg_descs)
    pools = [build_arg(arg_descs[n]) for n in names]
    tried = 0
    for combo in itertools.product(*pools):
        tried += 1
        args = {n: v for n, (lbl, v) in zip(names, combo)}
        r = check_call(qualname, c, args)
        if not r["ok"]:
            return {"reproduced": True, "args": {n: lbl for n, (lbl, v) in zip(names, combo)}, **r, "tried": tried}
    return {"reproduced": False, "tried": tried}


# pools for the bounded stand-in of a contract (used when the verifier cannot process the current source)
INT_POOL = [-2, -1, 0, 1, 2, 3, 7, 10]


MATCH_PATTERNS = [
    r"\d+", r"(\d)([a-z]?)-", r"([a-z]?)(\d)", r"(a)|(b)", r"(a*)(b*)", r"(?P<x>a)?(?P<y>b)", r"(a)(?P<n>b)", r"", r"a?",
    r"^$", r"\b", r"(?P<w>\w+) (?P<v>\w*)", r"((a)b)?c", r"x*", r"(?=\d)", r"(\w)(\w)?(\w)?", r".", r"^.*$", r"[^\n]+$", r"a|",
]
TEXTS = ["", "a", "ab", "1a-2-3b-", "7 a8", "a12", "abc abd\nxyz 12", "aXbXc", "bbb", "first\n\nthird", "word w", "1-", "aaa", "héllo wörld",
         "lorem ipsum 12 dolor sit amet 345 consectetur a1 adipiscing elit, sed do 6 eiusmod tempor\nincididunt 78 ut labore b2 et dolore 9"]


def _range_lists(seed=7, n=400):
    rnd = random.Random(seed)
    al = "abcdefghijkl"
    out = [("[]", [])]
    for _ in range(n):
        k = rnd.choice([1, 1, 2, 2, 3, 4])
        rs = []
        for _ in range(k):
            a, b = sorted((rnd.choice(al), rnd.choice(al)))
            rs.append(f"{a}-{b}")
        out.append((repr(rs), rs))
    return out


def pool_for(kind):
    if kind == "rangestrs":
        return _range_lists()
    if kind == "charlist":
        rnd = random.Random(11)
        return [(repr(x), x) for x in ([[]] + [[rnd.choice("abcdefghijklm") for _ in range(rnd.choice([1, 2, 3]))] for _ in range(60)])]
    if kind == "selfc":
        n = ns()
        out = []
        for pt in MATCH_PATTERNS:
            p = n["Pregex"](pt, escape=False)
            out.append((f"Pregex({pt!r}, escape=False)", p))
            q = n["Pregex"](pt, escape=False)
            q.compile()
            out.append((f"compiled Pregex({pt!r}, escape=False)", q))
        return out
    if kind == "text":
        return [(repr(t), t) for t in TEXTS]
    if kind in ("self", "pregex"):
        return [w for t in WITNESS_EXPRS for w in witnesses(t)]
    if kind == "pre":
        return pool_for("self") + [("''", ""), ("'a'", "a"), ("'a.c'", "a.c"), ("'x|y'", "x|y"), ("'$'", "$"),
                                   ("object()", specrt.Witness()), ("5", 5)]
    if kind in ("dyn", "dynint"):
        return [(repr(i), i) for i in INT_POOL] + [("None", None), ("True", True), ("False", False), ("2.0", 2.0), ("1.5", 1.5),
                                                   ("0.0", 0.0), ("'s'", "s"), ("object()", specrt.Witness())]
    if kind in ("bool", "boolc"):
        return [("True", True), ("False", False)]
    if kind == "base":
        return [(repr(i), i) for i in [-1, 0, 1, 2, 3, 8, 10, 11, 15, 16, 17, 36]] + [("True", True), ("2.0", 2.0), ("'10'", "10"),
                                                                                      ("None", None), ("object()", specrt.Witness())]
    if kind == "newobj":
        return [("<new instance>", NEW)]
    if kind == "bracket":
        return [(repr(t), t) for t in [".", "[a-z]", "[abc]", "[^a-z0-9]", "[a-zA-Z0-9_]", "[\\-\\]x]", "[b-df]", "[0-9a-fA-F]", "[^\\n]", "[xyz0-2]",
                                         "[!-\\/:-@\\[-`{-~]"]]
    if kind == "absranges":
        opts = [set(), {"a-z"}, {"a-c", "x-z"}, {"0-9", "A-F"}, {"!-\\/"}, {"\\[-\\]", "a-b"}, {"b-d", "k-m", "0-3"}]
        return [(repr(sorted(o)), o) for o in opts]
    if kind == "abschars":
        opts = [set(), {"a"}, {"a", "b"}, {"a", "b", "c"}, {"a", "c", "e"}, {"_", "\\-", "\\^"}, {"0", "1", "2", "x"}, {"d", "e", "f", "h", "i"},
                {"z", "y", "a", "b"}, {"\\]", "\\\\", "\\["}, {"n", "o", "q", "r", "s", "m"}]
        return [(repr(sorted(o)), o) for o in opts]
    if kind == "classobj":
        n = ns()
        return [(e, eval(e, n)) for e in CLASS_WITNESSES]
    if kind in ("varpre", "varpre_small", "varchars"):
        from pvc_kinds import KIND_TAGS
        rnd = random.Random(5)
        out = []
        for tag in KIND_TAGS[kind]:
            parts = [pool_for([t]) for t in tag.split("|")] if tag else []
            for _ in range(2):
                combo = [rnd.choice(p) for p in parts]
                out.append(("(" + ", ".join(l for l, _ in combo) + ("," if len(combo) == 1 else "") + ")", tuple(v for _, v in combo)))
        return out
    if kind == "intx":
        return [(repr(i), i) for i in INT_POOL] + [("None", None), ("2.0", 2.0), ("'s'", "s"), ("object()", specrt.Witness())]
    if kind == "intnb":
        return [(repr(i), i) for i in INT_POOL + [16, 17]] + [("2.0", 2.0), ("'s'", "s"), ("object()", specrt.Witness())]
    if kind == "formats":
        fm = specrt.helpers_namespace()["DATE_FORMATS"]()
        return [("None", None), ("[]", []), ("'dd/mm/yyyy'", "dd/mm/yyyy"), ("'dd.mm.yyyy'", "dd.mm.yyyy"), ("''", ""),
                (repr(fm[:3]), fm[:3]), ("['d/m/yy', 'x']", ["d/m/yy", "x"]), ("['yyyy-mm-dd']", ["yyyy-mm-dd"]),
                ("['YYYY-MM-DD']", ["YYYY-MM-DD"]), (repr(fm), list(fm))]
    if kind == "affixes":
        return [("'ab'", "ab"), ("''", ""), ("[]", []), ("['a']", ["a"]), ("['a', 'bc']", ["a", "bc"]), ("['a.', '']", ["a.", ""]),
                ("5", 5), ("None", None), ("['a', 5]", ["a", 5]), ("[None]", [None]), ("('a',)", ("a",)), ("object()", specrt.Witness())]
    if kind == "int":
        return [(repr(i), i) for i in INT_POOL]
    if kind == "optint":
        return [(repr(i), i) for i in INT_POOL] + [("None", None)]
    if kind in ("optname", "name"):
        return [("None", None), ("'nm'", "nm"), ("'_x1'", "_x1"), ("'1a'", "1a"), ("'a-b'", "a-b"), ("''", ""), ("'a\\n'", "a\n"),
                ("'größe'", "größe"), ("5", 5), ("object()", specrt.Witness())]
    if isinstance(kind, list):
        out, seen = [], set()
        for t in kind:
            base = t.split(":")[0]
            if base == "classobj":
                if base not in seen:
                    seen.add(base)
                    out.extend(pool_for("classobj"))
            elif base in WITNESS_EXPRS and base not in seen:
                seen.add(base)
                out.extend(witnesses(base))
            elif t in ("str0", "str1", "str2", "other", "none", "int", "str"):
                for lv in {"str0": [("''", "")], "str1": [("'a'", "a"), ("'.'", ".")], "str2": [("'a.c'", "a.c"), ("'x|y'", "x|y")],
                           "other": [("object()", specrt.Witness())], "none": [("None", None)], "int": [("5", 5)],
                           "str": [("'nm'", "nm"), ("'a-b'", "a-b")]}[t]:
                    out.append(lv)
        return out
    raise ValueError(kind)


def classarg_shapes():
    """the bracket text every zero-argument class of pregex.core.classes hands to __Class.__init__ (ghost CLASSARG): all must have
    the shape __process presupposes (CLASS_TEXT_WF)"""
    import inspect
    import pregex.core.classes as cl
    install_ghosts()
    out, bad = 0, []
    for name, k in vars(cl).items():
        if not (isinstance(k, type) and issubclass(k, getattr(cl, "__Class")) and not name.startswith("_")):
            continue
        sig = inspect.signature(k.__init__)
        req = [p for p in list(sig.parameters.values())[1:] if p.default is inspect._empty and p.kind in (p.POSITIONAL_ONLY, p.POSITIONAL_OR_KEYWORD)]
        if req or any(p.kind == p.VAR_POSITIONAL for p in sig.parameters.values()):
            continue
        variants = [k()] + ([k(is_global=True)] if "is_global" in sig.parameters else [])
        for o in variants:
            out += 1
            t = getattr(o, "_ghost_classarg", None)
            if t is None or not specrt.CLASS_TEXT_WF(t):
                bad.append({"class": name, "text": t})
    return {"classes": out, "bad": bad}


def chain_pairs(qualname, limit=400, seed=0):
    """for a constructor whose contract states `text == text of a chain of operations` (contract['value']): over the pool of
    its argument kinds, the pattern the real constructor emits and the pattern of the chain, for every call that returns"""
    import contracts
    c = contracts.ALL[qualname]
    names = list(c["params"])
    pools = [pool_for(c["params"][n]) for n in names]
    total = 1
    for p in pools:
        total *= len(p)
    rnd = random.Random(seed)
    combos = itertools.product(*pools)
    if total > limit:
        combos = (tuple(rnd.choice(p) for p in pools) for _ in range(limit))
    out, seen, n_ok = [], set(), 0
    for combo in combos:
        args = {nm: v for nm, (lbl, v) in zip(names, combo)}
        if args.get("self") is NEW:
            owner, _ = resolve(qualname)
            args["self"] = owner.__new__(owner)
        try:
            call_real(qualname, dict(args))
            real = str(args["self"])
        except BaseException:
            continue
        try:
            chain = str(specrt.eval_clause(c["value"], dict(args)))
        except BaseException as e:
            # the constructor returns but the chain its contract names cannot even be built
            out.append({"args": {nm: lbl for nm, (lbl, v) in zip(names, combo)}, "real": real, "chain_error": f"{type(e).__name__}: {e}"[:200]})
            continue
        n_ok += 1
        if (real, chain) in seen:
            continue
        seen.add((real, chain))
        out.append({"args": {nm: lbl for nm, (lbl, v) in zip(names, combo)}, "real": real, "chain": chain})
    return {"returned": n_ok, "pairs": out}


def bounded(qualname, limit=20000, seed=0):
    """the contract of `qualname` on the product of the pools of its parameter kinds (sampled beyond `limit`)"""
    import contracts
    c = contracts.ALL[qualname]
    names = list(c["params"])
    pools = [pool_for(c["params"][n]) for n in names]
    total = 1
    for p in pools:
        total *= len(p)
    rnd = random.Random(seed)
    combos = itertools.product(*pools)
    if total > limit:
        combos = (tuple(rnd.choice(p) for p in pools) for _ in range(limit))
    n = 0
    fails = []
    outcomes = {}
    for combo in combos:
        n += 1
        args = {nm: v for nm, (lbl, v) in zip(names, combo)}
        r = check_call(qualname, c, args)
        outcomes[r.get("outcome", "skipped" if r.get("skipped") else "fail")] = outcomes.get(r.get("outcome", "x"), 0) + 1
        if not r["ok"]:
            fails.append({"args": {nm: lbl for nm, (lbl, v) in zip(names, combo)}, **r})
            if len(fails) >= 5:
                break
    return {"evaluations": n, "space": total, "exhaustive": total <= limit, "failures": fails, "outcomes": outcomes}
