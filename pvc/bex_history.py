"""B20 - bounded stand-in for history independence (native): operands are snapshotted (text, inferred type, flag,
matches), then used many times in many compositions, compiled, matched with, in random order; afterwards every operand
must be unchanged, and rebuilding an expression from reused or fresh sub-objects must give the same text."""
import random, re
from . import native as N

LEAVES = ["Pregex('ab')", "Pregex('a.c')", "Pregex()", "AnyLetter()", "AnyFrom('x', '-')", "Optional('a')", "Either('a', 'bc')",
          "Capture('a', 'n')", "Group('ab')", "MatchAtStart('a')", "NotFollowedBy('a', 'b')", "AnyDigit() | AnyFrom('_')",
          "Exactly('ab', 1)", "Pregex('a').concat(Pregex())", "WordBoundary()"]
TEXTS = ["", "ab", "a.c abc", "x-1_a", "aaa bc"]


def snap(p):
    return (str(p), p.get_pattern(), p._get_type(), p._is_repeatable(), tuple(tuple(p.get_matches(t)) for t in TEXTS),
            getattr(p, "_get_verbose_pattern", lambda: None)())


def run(n=400, seed=0):
    ns = N.pregex_ns()
    import pregex.core.exceptions as ex
    lib = tuple(v for v in vars(ex).values() if isinstance(v, type) and issubclass(v, Exception))
    rnd = random.Random(seed)
    fails = []
    steps = 0
    for it in range(n):
        ops = [eval(e, ns) for e in LEAVES]
        before = [snap(p) for p in ops]
        built = []
        for _ in range(rnd.randint(5, 25)):
            i, j = rnd.randrange(len(ops)), rnd.randrange(len(ops))
            a, b = ops[i], ops[j]
            action = rnd.choice(["concat", "either", "enclose", "add", "quant", "capture", "group", "compile", "getc", "getc2", "purge",
                                 "match", "followed", "classor", "mul", "anchor", "invert"])
            steps += 1
            try:
                if action == "concat":
                    built.append((("concat", i, j), a.concat(b)))
                elif action == "either":
                    built.append((("either", i, j), a.either(b)))
                elif action == "enclose":
                    built.append((("enclose", i, j), a.enclose(b)))
                elif action == "add":
                    built.append((("add", i, j), a + b))
                elif action == "quant":
                    built.append((("quant", i), a.at_least_at_most(1, 3, True).optional()))
                elif action == "capture":
                    built.append((("capture", i), a.capture().capture("m")))
                elif action == "group":
                    built.append((("group", i), a.group(True)))
                elif action == "compile":
                    a.compile()
                elif action == "getc":
                    a.get_compiled_pattern(True)
                elif action == "getc2":
                    a.get_compiled_pattern(False)
                elif action == "purge":
                    a.purge()
                elif action == "match":
                    a.get_matches(rnd.choice(TEXTS)); a.has_match("ab"); a.replace("ab", "z"); a.split_by_match("a b")
                elif action == "followed":
                    built.append((("followed", i, j), a.followed_by(b)))
                elif action == "classor":
                    built.append((("classor", i, j), a | b))
                elif action == "mul":
                    built.append((("mul", i), a * 2))
                elif action == "anchor":
                    built.append((("anchor", i), a.match_at_line_end()))
                elif action == "invert":
                    built.append((("invert", i), ~a))
            except lib:
                pass
            except (TypeError, AttributeError):
                pass          # | and ~ on non-class operands
        after = [snap(p) for p in ops]
        for e, x, y in zip(LEAVES, before, after):
            if x != y:
                fails.append({"operand": e, "before": [str(v)[:60] for v in x[:4]], "after": [str(v)[:60] for v in y[:4]]})
        # rebuilding from fresh sub-objects gives the same text
        fresh = [eval(e, ns) for e in LEAVES]
        for key, val in built:
            try:
                a = fresh[key[1]]
                b = fresh[key[2]] if len(key) > 2 else None
                again = {"concat": lambda: a.concat(b), "either": lambda: a.either(b), "enclose": lambda: a.enclose(b), "add": lambda: a + b,
                         "followed": lambda: a.followed_by(b), "group": lambda: a.group(True), "mul": lambda: a * 2,
                         "quant": lambda: a.at_least_at_most(1, 3, True).optional(), "capture": lambda: a.capture().capture("m"),
                         "anchor": lambda: a.match_at_line_end()}.get(key[0])
                if again is None:
                    continue
                r2 = again()
                if str(r2) != str(val):
                    fails.append({"expression": key, "first": str(val), "rebuilt": str(r2)})
            except lib:
                pass
        if len(fails) > 10:
            break
    return {"evaluations": steps, "histories": n, "failures": fails[:10]}
