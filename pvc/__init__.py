"""pvc - contract-based deductive verification machinery for manoss96/pregex (see /verif/DESIGN.md)."""
