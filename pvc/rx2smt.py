"""rx2smt - regular language of *all possible matches in all contexts* of a concrete regex, as an SMT RegLan.

DESIGN.md section 3.6.  For a pattern P the translator builds the regular language

    T(P) = { u # v # w  :  P can match v at offset |u| of the text u v w }            (# is a marker outside the alphabet)

with *whole-text-prefix semantics*: a state is (acc, pend) where acc is the language of the whole text up to the
current position (u # consumed-part-of-v) and pend constrains the next character (or end of text).  Look-behinds
are intersections on acc, \\b splits on the previous character, one-character look-aheads / $ / \\Z set pend.

Character sets are exact sets of code points; before emitting SMT the alphabet is reduced to the minterms
(equivalence classes) of all character sets that occur on either side of a comparison, which is sound and complete
for language (in)equivalence and makes the queries small.

Not translatable (raises Untranslatable): back-references, conditionals, flags, look-aheads whose body is not one
character wide, zero-width items under an unbounded repeat.
"""
import itertools
from .common import native, CheckerError

MAXCP = 0x10FFFF


class Untranslatable(Exception):
    pass


# ------------------------------------------------------------------------------------------------
# character sets: sorted tuples of disjoint (lo, hi)

def cs_norm(ranges):
    rs = sorted((int(a), int(b)) for a, b in ranges if a <= b)
    out = []
    for a, b in rs:
        if out and a <= out[-1][1] + 1:
            out[-1] = (out[-1][0], max(out[-1][1], b))
        else:
            out.append((a, b))
    return tuple(out)


def cs_union(*sets):
    return cs_norm([r for s in sets for r in s])


def cs_compl(s, universe=((0, MAXCP),)):
    out = []
    for ua, ub in universe:
        cur = ua
        for a, b in s:
            if b < cur:
                continue
            if a > ub:
                break
            if a > cur:
                out.append((cur, min(a - 1, ub)))
            cur = max(cur, b + 1)
            if cur > ub:
                break
        if cur <= ub:
            out.append((cur, ub))
    return cs_norm(out)


def cs_inter(a, b):
    out = []
    i = j = 0
    while i < len(a) and j < len(b):
        lo, hi = max(a[i][0], b[j][0]), min(a[i][1], b[j][1])
        if lo <= hi:
            out.append((lo, hi))
        if a[i][1] < b[j][1]:
            i += 1
        else:
            j += 1
    return tuple(out)


def cs_minus(a, b):
    return cs_inter(a, cs_compl(b))


def cs_of(chars):
    return cs_norm([(ord(c), ord(c)) for c in chars])


def cs_contains(s, cp):
    return any(a <= cp <= b for a, b in s)


_CATS = None


def categories():
    global _CATS
    if _CATS is None:
        r = native("category_ranges")
        _CATS = {k: cs_norm(v) for k, v in r.items()}
    return _CATS


ASCII_D = cs_norm([(48, 57)])
ASCII_W = cs_norm([(48, 57), (65, 90), (95, 95), (97, 122)])
ASCII_S = cs_norm([(9, 13), (32, 32)])


def surplus():
    """code points that only the Unicode-aware \\d and \\s add beyond [0-9] and ASCII whitespace"""
    c = categories()
    return cs_union(cs_minus(c["d"], ASCII_D), cs_minus(c["s"], ASCII_S))


# ------------------------------------------------------------------------------------------------
# regex AST:  ('cs', charset) ('mark',) ('eps',) ('none',) ('cat', [..]) ('alt', [..]) ('star', r)
#             ('loop', r, lo, hi|None) ('and', [..]) ('not', r) ('allm',)  -- (Sigma + marker)*

class N(tuple):
    """hash-consed regex node: structural equality is identity, hashing is O(1) (the ASTs are DAGs with heavy sharing)"""

    def __hash__(self):
        return self.uid

    def __eq__(self, o):
        return self is o

    def __ne__(self, o):
        return self is not o

    def __reduce__(self):
        return (mk, tuple(self))


_intern = {}


def mk(*parts):
    key = tuple((("N", p.uid) if isinstance(p, N) else (("T", tuple(x.uid for x in p)) if (isinstance(p, tuple) and p and isinstance(p[0], N)) else p))
                for p in parts)
    n = _intern.get(key)
    if n is None:
        n = N(parts)
        n.uid = len(_intern) + 1
        _intern[key] = n
    return n


EPS, NONE, MARK, ALLM = mk('eps'), mk('none'), mk('mark'), mk('allm')


def _key(r):
    return r.uid


def cat(*rs):
    out = []
    for r in rs:
        if r is NONE:
            return NONE
        if r is EPS:
            continue
        if r[0] == 'cat':
            out.extend(r[1])
        else:
            out.append(r)
    if not out:
        return EPS
    return out[0] if len(out) == 1 else mk('cat', tuple(out))


def alt(*rs):
    out = []
    seen = set()
    for r in rs:
        if r is NONE:
            continue
        for x in (r[1] if r[0] == 'alt' else (r,)):
            if x.uid not in seen:
                seen.add(x.uid)
                out.append(x)
    if not out:
        return NONE
    return out[0] if len(out) == 1 else mk('alt', tuple(sorted(out, key=_key)))


def conj(*rs):
    out = []
    seen = set()
    for r in rs:
        if r is NONE:
            return NONE
        if r is ALLM:
            continue
        for x in (r[1] if r[0] == 'and' else (r,)):
            if x is NONE:
                return NONE
            if x.uid not in seen:
                seen.add(x.uid)
                out.append(x)
    if not out:
        return ALLM
    return out[0] if len(out) == 1 else mk('and', tuple(sorted(out, key=_key)))


def neg(r):
    if r[0] == 'not':
        return r[1]
    if r is NONE:
        return ALLM
    if r is ALLM:
        return NONE
    return mk('not', r)


def star(r):
    if r is EPS or r is NONE:
        return EPS
    if r[0] == 'star':
        return r
    return mk('star', r)


def loop(r, lo, hi):
    if hi is not None and hi < lo:
        return NONE
    if hi == 0:
        return EPS
    if lo == 1 and hi == 1:
        return r
    if lo == 0 and hi is None:
        return star(r)
    if r is EPS:
        return EPS
    return mk('loop', r, lo, hi)


def opt(r):
    return alt(EPS, r)


def cs(s):
    return mk('cs', s) if s else NONE


# ------------------------------------------------------------------------------------------------
# translation

class Ctx:
    def __init__(self, universe, in_lb=False):
        self.U = universe          # charset of the text alphabet
        self.in_lb = in_lb         # inside a look-behind body: tolerate the marker after each character
        c = categories()
        self.W = cs_inter(c["w"], universe)
        self.NW = cs_minus(universe, self.W)

    def sub(self, in_lb):
        x = Ctx.__new__(Ctx)
        x.U, x.in_lb, x.W, x.NW = self.U, in_lb, self.W, self.NW
        return x


def item_charset(op, av, ctx):
    """charset of a one-character item, or None"""
    c = categories()
    if op == "LITERAL":
        return cs_inter(cs_norm([(av, av)]), ctx.U)
    if op == "NOT_LITERAL":
        return cs_minus(ctx.U, cs_norm([(av, av)]))
    if op == "ANY":
        return ctx.U  # DOTALL is always on in pregex
    if op == "IN":
        negate = False
        acc = ()
        for o, a in av:
            if o == "NEGATE":
                negate = True
            elif o == "LITERAL":
                acc = cs_union(acc, [(a, a)])
            elif o == "RANGE":
                acc = cs_union(acc, [(a[0], a[1])])
            elif o == "CATEGORY":
                acc = cs_union(acc, category_set(a))
            else:
                raise Untranslatable(f"class item {o}")
        acc = cs_inter(acc, ctx.U)
        return cs_minus(ctx.U, acc) if negate else acc
    return None


def category_set(name):
    c = categories()
    full = ((0, MAXCP),)
    table = {
        "CATEGORY_DIGIT": c["d"], "CATEGORY_NOT_DIGIT": cs_minus(full, c["d"]),
        "CATEGORY_WORD": c["w"], "CATEGORY_NOT_WORD": cs_minus(full, c["w"]),
        "CATEGORY_SPACE": c["s"], "CATEGORY_NOT_SPACE": cs_minus(full, c["s"]),
    }
    if name not in table:
        raise Untranslatable(name)
    return table[name]


def pure(tree, ctx):
    """plain regex of a sub-tree without zero-width items, else None"""
    parts = []
    for op, av in tree:
        s = item_charset(op, av, ctx)
        if s is not None:
            parts.append(cs(s))
            if ctx.in_lb:
                parts.append(opt(MARK))
        elif op == "BRANCH":
            alts = [pure(b, ctx) for b in av]
            if any(a is None for a in alts):
                return None
            parts.append(alt(*alts))
        elif op == "SUBPATTERN":
            g, af, df, sp = av
            if af or df:
                raise Untranslatable("scoped flags")
            p = pure(sp, ctx)
            if p is None:
                return None
            parts.append(p)
        elif op in ("MAX_REPEAT", "MIN_REPEAT"):
            lo, hi, sp = av
            p = pure(sp, ctx)
            if p is None:
                return None
            parts.append(loop(p, lo, hi))
        elif op in ("AT", "ASSERT", "ASSERT_NOT"):
            return None
        else:
            raise Untranslatable(op)
    return cat(*parts)


def merge(states):
    """states with the same pending constraint are merged by alternation"""
    by = {}
    order = []
    for acc, pend in states:
        if acc == NONE:
            continue
        if pend not in by:
            by[pend] = acc
            order.append(pend)
        else:
            by[pend] = alt(by[pend], acc)
    return [(by[p], p) for p in order]


def pend_and(p, q, ctx):
    if p is None:
        return q
    if q is None:
        return p
    return (cs_inter(p[0], q[0]), p[1] and q[1])


def consume(states, s, ctx):
    out = []
    for acc, pend in states:
        ss = s if pend is None else cs_inter(s, pend[0])
        if not ss:
            continue
        out.append((cat(acc, cs(ss), opt(MARK)) if ctx.in_lb else cat(acc, cs(ss)), None))
    return out


def prev_word(ctx):
    return cat(ALLM, cs(ctx.W), opt(MARK))


def prev_nonword(ctx):
    return alt(opt(MARK), cat(ALLM, cs(ctx.NW), opt(MARK)))


def trans(tree, states, ctx):
    for idx, (op, av) in enumerate(tree):
        if not states:
            return []
        s = item_charset(op, av, ctx)
        if s is not None:
            states = consume(states, s, ctx)
        elif op == "BRANCH":
            out = []
            for b in av:
                out.extend(trans(b, states, ctx))
            states = merge(out)
        elif op == "SUBPATTERN":
            g, af, df, sp = av
            if af or df:
                raise Untranslatable("scoped flags")
            states = trans(sp, states, ctx)
        elif op in ("MAX_REPEAT", "MIN_REPEAT"):
            lo, hi, sp = av
            p = pure(sp, ctx)
            if p is not None:
                out = []
                for acc, pend in states:
                    if pend is None:
                        out.append((cat(acc, loop(p, lo, hi)), None))
                    else:
                        if lo == 0:
                            out.append((acc, pend))
                        if hi is None or hi >= 1:
                            for a2, p2 in trans(sp, [(acc, pend)], ctx):
                                rest = loop(p, max(lo - 1, 0), None if hi is None else hi - 1)
                                if p2 is None:
                                    out.append((cat(a2, rest), None))
                                else:
                                    raise Untranslatable("pending constraint survives a repeat body")
                states = merge(out)
            else:
                if hi is None or hi > 70:
                    raise Untranslatable("zero-width item under an unbounded repeat")
                out = []
                cur = states
                for k in range(0, hi + 1):
                    if k >= lo:
                        out.extend(cur)
                    if k < hi:
                        cur = merge(trans(sp, cur, ctx))
                        if not cur:
                            break
                states = merge(out)
        elif op == "AT":
            out = []
            for acc, pend in states:
                if av == "AT_BEGINNING_STRING":
                    out.append((conj(acc, opt(MARK)), pend))
                elif av in ("AT_BEGINNING", "AT_BEGINNING_LINE"):
                    nl = cs_inter(cs_of("\n"), ctx.U)
                    out.append((conj(acc, alt(opt(MARK), cat(ALLM, cs(nl), opt(MARK)))), pend))
                elif av == "AT_END_STRING":
                    out.append((acc, pend_and(pend, ((), True), ctx)))
                elif av in ("AT_END", "AT_END_LINE"):
                    nl = cs_inter(cs_of("\n"), ctx.U)
                    out.append((acc, pend_and(pend, (nl, True), ctx)))
                elif av == "AT_BOUNDARY":
                    out.append((conj(acc, prev_word(ctx)), pend_and(pend, (ctx.NW, True), ctx)))
                    out.append((conj(acc, prev_nonword(ctx)), pend_and(pend, (ctx.W, False), ctx)))
                elif av == "AT_NON_BOUNDARY":
                    out.append((conj(acc, prev_word(ctx)), pend_and(pend, (ctx.W, False), ctx)))
                    # CPython: \B never matches in an EMPTY text (sre: `if (state->beginning == state->end) return 0`); at
                    # the start of a non-empty text it needs a following non-word character, the end does not do
                    nothing_yet = star(MARK)
                    out.append((conj(acc, prev_nonword(ctx), neg(nothing_yet)), pend_and(pend, (ctx.NW, True), ctx)))
                    out.append((conj(acc, prev_nonword(ctx), nothing_yet), pend_and(pend, (ctx.NW, False), ctx)))
                else:
                    raise Untranslatable(av)
            states = merge([(a, p) for a, p in out if p is None or p[0] or p[1]])
        elif op in ("ASSERT", "ASSERT_NOT"):
            d, sp = av
            if d == -1:
                body = merge(trans(sp, [(ALLM, None)], ctx.sub(True)))
                out = []
                if op == "ASSERT":
                    for acc, pend in states:
                        for ab, pb in body:
                            out.append((conj(acc, ab), pend_and(pend, pb, ctx)))
                else:
                    # not OR_i (A_i and p_i)  =  AND_i (not A_i  or  not p_i): one state per choice
                    plain = [ab for ab, pb in body if pb is None]
                    withp = [(ab, pb) for ab, pb in body if pb is not None]
                    if len(withp) > 6:
                        raise Untranslatable("negative look-behind with too many pending constraints")
                    nb = neg(alt(*plain)) if plain else ALLM
                    for acc, pend in states:
                        base = conj(acc, nb)
                        for choice in itertools.product((0, 1), repeat=len(withp)):
                            a2, p2 = base, pend
                            for (ab, pb), ch in zip(withp, choice):
                                if ch == 0:
                                    a2 = conj(a2, neg(ab))
                                else:
                                    p2 = pend_and(p2, (cs_minus(ctx.U, pb[0]), not pb[1]), ctx)
                            if p2 is None or p2[0] or p2[1]:
                                out.append((a2, p2))
                states = merge(out)
            else:
                one = lookahead_charset(sp, ctx)
                if one is None:
                    raise Untranslatable("look-ahead whose body is not exactly one character wide")
                cset, eot = one
                out = []
                for acc, pend in states:
                    if op == "ASSERT":
                        q = (cset, eot)
                    else:
                        q = (cs_minus(ctx.U, cset), not eot)
                    pp = pend_and(pend, q, ctx)
                    if pp[0] or pp[1]:
                        out.append((acc, pp))
                states = merge(out)
        else:
            raise Untranslatable(op)
    return states


def lookahead_charset(sp, ctx):
    """(charset, eot_ok) if the body is a single one-character item (or an alternation of such), else None"""
    if len(sp) != 1:
        return None
    op, av = sp[0]
    s = item_charset(op, av, ctx)
    if s is not None:
        return (s, False)
    if op == "BRANCH":
        acc = ()
        for b in av:
            r = lookahead_charset(b, ctx)
            if r is None or r[1]:
                return None
            acc = cs_union(acc, r[0])
        return (acc, False)
    if op == "SUBPATTERN" and not av[1] and not av[2]:
        return lookahead_charset(av[3], ctx)
    return None


def T_language(tree, universe):
    """regex AST of { u # v # w } for the parsed pattern"""
    ctx = Ctx(universe)
    sigma_star = star(cs(universe))
    init = [(cat(sigma_star, MARK), None)]
    fin = merge(trans(tree, init, ctx))
    parts = []
    for acc, pend in fin:
        if pend is None:
            tail = sigma_star
        else:
            tail = alt(cat(cs(pend[0]), sigma_star) if pend[0] else NONE, EPS if pend[1] else NONE)
        parts.append(cat(acc, MARK, tail))
    return alt(*parts)


def spec_T(left, body, right, universe):
    """{ u # v # w : u in left, v in body, w in right } with plain regex ASTs over the universe"""
    return cat(left, MARK, body, MARK, right)


# plain (no zero-width) regex text -> AST, used to write spec languages as ordinary regexes
def plain(tree, universe):
    p = pure(tree, Ctx(universe))
    if p is None:
        raise Untranslatable("spec regex contains zero-width items")
    return p


# ------------------------------------------------------------------------------------------------
# minterm reduction and SMT-LIB emission

def collect_sets(r, acc, _seen=None):
    if _seen is None:
        _seen = set()
    stack = [r]
    while stack:
        r = stack.pop()
        if r.uid in _seen:
            continue
        _seen.add(r.uid)
        t = r[0]
        if t == 'cs':
            acc.add(r[1])
        elif t in ('cat', 'alt', 'and'):
            stack.extend(r[1])
        elif t in ('star', 'not', 'loop'):
            stack.append(r[1])


def minterms(sets, universe):
    """partition of the universe induced by the given charsets; returns (blocks, index) where blocks is a list of
    charsets and index maps a charset to the frozenset of block ids it is the union of"""
    sets = [s for s in sets]
    bounds = set()
    for s in sets + [universe]:
        for a, b in s:
            bounds.add(a)
            bounds.add(b + 1)
    bl = sorted(bounds)
    sig_to_block = {}
    for i in range(len(bl) - 1):
        a, b = bl[i], bl[i + 1] - 1
        if not cs_contains(universe, a):
            continue
        sig = tuple(k for k, s in enumerate(sets) if cs_contains(s, a))
        sig_to_block.setdefault(sig, []).append((a, b))
    sigs = sorted(sig_to_block, key=lambda sg: sig_to_block[sg][0])
    blocks = [cs_norm(sig_to_block[sg]) for sg in sigs]
    index = {}
    for k, s in enumerate(sets):
        index[s] = frozenset(i for i, sg in enumerate(sigs) if k in sg)
    index[universe] = frozenset(range(len(blocks)))
    return blocks, index


BASE = 0x100  # block i is the SMT character U+0100+i ; the marker is the character after the last block


def smt_char(i):
    return "\\u{%x}" % (BASE + i)


def ids_to_re(ids):
    ids = sorted(ids)
    if not ids:
        return "re.none"
    runs = []
    for i in ids:
        if runs and runs[-1][1] == i - 1:
            runs[-1][1] = i
        else:
            runs.append([i, i])
    parts = []
    for a, b in runs:
        if a == b:
            parts.append(f'(str.to_re "{smt_char(a)}")')
        else:
            parts.append(f'(re.range "{smt_char(a)}" "{smt_char(b)}")')
    return parts[0] if len(parts) == 1 else "(re.union " + " ".join(parts) + ")"


def to_smt(r, index, nblocks, defs=None):
    """SMT-LIB term of a node; shared sub-terms become (define-fun ...) entries collected in `defs` (dict uid -> (name, text))"""
    if defs is None:
        defs = {}
    if r.uid in defs:
        return defs[r.uid][0]
    t = r[0]
    if t == 'cs':
        txt = ids_to_re(index[r[1]])
    elif t == 'mark':
        txt = f'(str.to_re "{smt_char(nblocks)}")'
    elif t == 'eps':
        txt = '(str.to_re "")'
    elif t == 'none':
        txt = 're.none'
    elif t == 'allm':
        txt = f'(re.* (re.range "{smt_char(0)}" "{smt_char(nblocks)}"))'
    elif t == 'cat':
        txt = "(re.++ " + " ".join(to_smt(x, index, nblocks, defs) for x in r[1]) + ")"
    elif t == 'alt':
        txt = "(re.union " + " ".join(to_smt(x, index, nblocks, defs) for x in r[1]) + ")"
    elif t == 'and':
        txt = "(re.inter " + " ".join(to_smt(x, index, nblocks, defs) for x in r[1]) + ")"
    elif t == 'not':
        txt = "(re.comp " + to_smt(r[1], index, nblocks, defs) + ")"
    elif t == 'star':
        txt = "(re.* " + to_smt(r[1], index, nblocks, defs) + ")"
    elif t == 'loop':
        _, x, lo, hi = r
        xs = to_smt(x, index, nblocks, defs)
        if hi is None:
            txt = f"(re.++ ((_ re.^ {lo}) {xs}) (re.* {xs}))" if lo > 0 else f"(re.* {xs})"
        else:
            txt = f"((_ re.loop {lo} {hi}) {xs})"
    else:
        raise CheckerError(f"regex AST node {t}")
    if t in ('cs', 'mark', 'eps', 'none') or len(txt) < 40:
        defs[r.uid] = (txt, None)
        return txt
    name = f"r{r.uid}"
    defs[r.uid] = (name, txt)
    return name


def defs_text(defs):
    return "".join(f"(define-fun {nm} () RegLan {txt})\n" for nm, txt in defs.values() if txt is not None)


def diff_queries(A, B, universe, extra_and=None):
    """SMT-LIB texts of the two inclusion queries  A \\ B = {}  and  B \\ A = {} (sat = counterexample).
    Returns (query_AminusB, query_BminusA, decoder) ; extra_and restricts both sides (a regex AST)."""
    sets = set()
    collect_sets(A, sets)
    collect_sets(B, sets)
    if extra_and is not None:
        collect_sets(extra_and, sets)
    blocks, index = minterms(sorted(sets), universe)
    n = len(blocks)
    defs = {}
    a, b = to_smt(A, index, n, defs), to_smt(B, index, n, defs)
    dom = f'(re.* (re.range "{smt_char(0)}" "{smt_char(n)}"))'
    exa = None if extra_and is None else to_smt(extra_and, index, n, defs)
    ex = "" if extra_and is None else f"(assert (str.in_re s {exa}))\n"
    head = "(set-logic QF_SLIA)\n(set-option :produce-models true)\n(declare-const s String)\n" + defs_text(defs) + \
           f"(assert (str.in_re s {dom}))\n" + ex
    q1 = head + f"(assert (str.in_re s {a}))\n(assert (not (str.in_re s {b})))\n(check-sat)\n(get-value (s))\n"
    q2 = head + f"(assert (str.in_re s {b}))\n(assert (not (str.in_re s {a})))\n(check-sat)\n(get-value (s))\n"

    def decode(smt_string):
        """SMT model string -> (real text with the marker rendered as U+2021 positions, pieces)"""
        out = []
        i = 0
        s = smt_string
        chars = []
        while i < len(s):
            if s.startswith("\\u{", i):
                j = s.index("}", i)
                chars.append(int(s[i + 3:j], 16))
                i = j + 1
            elif s.startswith("\\u", i):
                chars.append(int(s[i + 2:i + 6], 16))
                i += 6
            else:
                chars.append(ord(s[i]))
                i += 1
        pieces, cur = [], []
        for c in chars:
            k = c - BASE
            if k == n:
                pieces.append("".join(cur))
                cur = []
            elif 0 <= k < n:
                cur.append(chr(representative(blocks[k])))
            else:
                cur.append("?")
        pieces.append("".join(cur))
        return pieces

    return q1, q2, decode, n


def representative(block):
    """a readable member of a block of code points"""
    prefer = list(range(0x30, 0x3A)) + list(range(0x61, 0x7B)) + list(range(0x41, 0x5B)) + list(range(0x20, 0x7F))
    for cp in prefer:
        if cs_contains(block, cp):
            return cp
    return block[0][0]


# ------------------------------------------------------------------------------------------------
# concrete membership in a regex AST by Brzozowski derivatives (used to cross-check the translation against
# CPython on sampled texts; independent of the SMT emission)

MARKCP = -1


_nmemo = {}


def nullable(r):
    v = _nmemo.get(r.uid)
    if v is None:
        v = _nmemo[r.uid] = _nullable(r)
    return v


def _nullable(r):
    t = r[0]
    if t in ('eps', 'star', 'allm'):
        return True
    if t in ('cs', 'mark', 'none'):
        return False
    if t == 'cat':
        return all(nullable(x) for x in r[1])
    if t == 'alt':
        return any(nullable(x) for x in r[1])
    if t == 'and':
        return all(nullable(x) for x in r[1])
    if t == 'not':
        return not nullable(r[1])
    if t == 'loop':
        return r[2] == 0 or nullable(r[1])
    raise CheckerError(t)


_dmemo = {}


def deriv(r, c):
    k = (r, c)
    v = _dmemo.get(k)
    if v is None:
        v = _dmemo[k] = _deriv(r, c)
    return v


def _deriv(r, c):
    t = r[0]
    if t in ('eps', 'none'):
        return NONE
    if t == 'cs':
        return EPS if c != MARKCP and cs_contains(r[1], c) else NONE
    if t == 'mark':
        return EPS if c == MARKCP else NONE
    if t == 'allm':
        return ALLM
    if t == 'cat':
        xs = r[1]
        out = []
        for i, x in enumerate(xs):
            d = deriv(x, c)
            if d != NONE:
                out.append(cat(d, *xs[i + 1:]))
            if not nullable(x):
                break
        return alt(*out)
    if t == 'alt':
        return alt(*[deriv(x, c) for x in r[1]])
    if t == 'and':
        return conj(*[deriv(x, c) for x in r[1]])
    if t == 'not':
        return neg(deriv(r[1], c))
    if t == 'star':
        return cat(deriv(r[1], c), r)
    if t == 'loop':
        _, x, lo, hi = r
        if hi is not None and hi == 0:
            return NONE
        rest = loop(x, max(lo - 1, 0), None if hi is None else hi - 1)
        return cat(deriv(x, c), rest)
    raise CheckerError(t)


def member(r, cps):
    for c in cps:
        r = deriv(r, c)
        if r is NONE:
            return False
    return nullable(r)


def T_member(T, u, v, w):
    cps = [ord(ch) for ch in u] + [MARKCP] + [ord(ch) for ch in v] + [MARKCP] + [ord(ch) for ch in w]
    return member(T, cps)


def included(A, B, universe, limit=400000):
    """Decide L(A) <= L(B) over (universe + marker)* by exploring pairs of Brzozowski derivatives over the minterm
    alphabet.  Returns (True, None, states) or (False, counterexample_code_points, states); raises CheckerError when
    the state limit is exceeded (undecided)."""
    sets = set()
    collect_sets(A, sets)
    collect_sets(B, sets)
    blocks, _ = minterms(sorted(sets), universe)
    syms = [representative(b) for b in blocks] + [MARKCP]
    start = (A, B)
    seen = {start: None}
    queue = [start]
    qi = 0
    while qi < len(queue):
        st = queue[qi]
        qi += 1
        a, b = st
        if nullable(a) and not nullable(b):
            path = []
            cur = st
            while seen[cur] is not None:
                prev, c = seen[cur]
                path.append(c)
                cur = prev
            return False, path[::-1], len(seen)
        for c in syms:
            a2 = deriv(a, c)
            if a2 == NONE:
                continue
            b2 = deriv(b, c)
            nx = (a2, b2)
            if nx not in seen:
                seen[nx] = (st, c)
                queue.append(nx)
                if len(seen) > limit:
                    raise CheckerError("derivative exploration exceeded the state limit")
    return True, None, len(seen)
