"""Shared plumbing: paths, native (CPython 3.12 + real pregex) subprocesses, evidence, findings, reports."""
import json, os, subprocess, sys, time, hashlib, tempfile, shutil

VERIF = os.path.dirname(os.path.dirname(os.path.abspath(__file__)))
REPO = os.environ.get("PVC_REPO", "/repo")
SRC = os.path.join(REPO, "src")
NATIVE_PY = os.environ.get("PVC_NATIVE_PY", "/venv/bin/python")
NCPU = int(os.environ.get("PVC_NCPU", "16"))
SEED = int(os.environ.get("VERIF_SEED", "0") or 0)

EXIT_OK, EXIT_VIOLATION, EXIT_UNDECIDED, EXIT_CHECKER = 0, 1, 2, 3


class CheckerError(Exception):
    """A limitation or internal error of the checker: never a verdict about the code."""


class LibraryCrash(Exception):
    """A bounded stand-in died of an exception raised INSIDE the library (innermost frame under src/pregex) that is not one of
    the library's own exception classes - RecursionError, IndexError, re.error ...: the library failed with an unrelated error
    on an input the stand-in built.  A verdict (violation without a minimised input), not a checker error."""

    def __init__(self, task, exc_line, where):
        super().__init__(f"{task}: {exc_line} at {where}")
        self.task, self.exc_line, self.where = task, exc_line, where


def _library_crash(task, stderr):
    lines = stderr.strip().splitlines()
    files = [l.strip() for l in lines if l.strip().startswith('File "')]
    if not files or not lines:
        return None
    last = files[-1]
    if os.path.join(SRC, "pregex") in last or "/re/" in last and any(os.path.join(SRC, "pregex") in f for f in files[-6:]):
        exc = lines[-1].strip()
        if exc.split(":")[0].split(".")[-1].endswith("Exception") and "pregex" in exc:
            return None
        return LibraryCrash(task, exc[:200], last[:200])
    return None


def native_env():
    env = dict(os.environ)
    env["PYTHONPATH"] = SRC + os.pathsep + VERIF
    env["PYTHONWARNINGS"] = "ignore"
    env.setdefault("PYTHONHASHSEED", "0")
    return env


def native(task, payload=None, timeout=3600, hashseed=None):
    """Run pvc.native <task> under the interpreter the test-suite uses, with the real pregex on the path.
    payload/result cross the process boundary as JSON."""
    env = native_env()
    if hashseed is not None:
        env["PYTHONHASHSEED"] = str(hashseed)
    p = subprocess.run([NATIVE_PY, "-W", "ignore", "-m", "pvc.native", task], input=json.dumps(payload),
                       capture_output=True, text=True, env=env, cwd=VERIF, timeout=timeout)
    if p.returncode != 0:
        lc = _library_crash(task + (" " + str((payload or {}).get("module", "")) + "." + str((payload or {}).get("func", "")) if task == "run_module" else ""),
                            p.stderr)
        if lc is not None:
            raise lc
        raise CheckerError(f"native task {task} failed rc={p.returncode}: {p.stderr[-3000:]}")
    try:
        return json.loads(p.stdout)
    except Exception as e:
        raise CheckerError(f"native task {task}: unparsable output {p.stdout[-500:]!r} stderr={p.stderr[-1500:]}")



class NativeServer:
    """persistent native worker (one JSON request per line) for the many small parser calls of respec"""
    _inst = None

    def __init__(self):
        self.p = subprocess.Popen([NATIVE_PY, "-W", "ignore", "-u", "-m", "pvc.native", "--serve"], stdin=subprocess.PIPE,
                                  stdout=subprocess.PIPE, stderr=subprocess.DEVNULL, text=True, env=native_env(), cwd=VERIF)

    @classmethod
    def get(cls):
        if cls._inst is None or cls._inst.p.poll() is not None:
            cls._inst = NativeServer()
        return cls._inst

    def call(self, task, payload):
        self.p.stdin.write(json.dumps({"task": task, "payload": payload}) + "\n")
        self.p.stdin.flush()
        line = self.p.stdout.readline()
        if not line:
            raise CheckerError(f"native server died on task {task}")
        r = json.loads(line)
        if "error" in r:
            raise CheckerError(f"native task {task}: {r['error'][-2000:]}")
        return r["result"]

    @classmethod
    def stop(cls):
        if cls._inst is not None:
            try:
                cls._inst.p.stdin.close()
                cls._inst.p.wait(timeout=5)
            except Exception:
                cls._inst.p.kill()
            cls._inst = None


def native_fast(task, payload):
    return NativeServer.get().call(task, payload)


def src_hash(path):
    with open(path, "rb") as f:
        return hashlib.sha256(f.read()).hexdigest()[:16]


def repo_state():
    files = {}
    for root, _, names in os.walk(os.path.join(SRC, "pregex")):
        for n in sorted(names):
            if n.endswith(".py"):
                p = os.path.join(root, n)
                files[os.path.relpath(p, SRC)] = src_hash(p)
    return files


# ----------------------------------------------------------------------------------------------
# known findings

def load_findings():
    p = os.path.join(VERIF, "known_findings.json")
    if not os.path.exists(p):
        return {"findings": [], "fixed": []}
    with open(p) as f:
        return json.load(f)


class Report:
    """Collects what one check did; prints VIOLATION / KNOWN-FINDING lines; writes the evidence file."""

    def __init__(self, prop, tier, level):
        self.prop, self.tier, self.level = prop, tier, level
        self.t0 = time.time()
        self.obligations = []      # dicts: name, status ('discharged'|'failed'|'unknown'), backend, time_s, kind
        self.finite = []           # complete finite decisions
        self.bounded = []          # bounded stand-ins
        self.violations = []       # dicts: obligation, detail, replay
        self.known_hits = []
        self.samples = []
        self.assumptions = []
        self.trusted = []
        self.functions = {}
        self.extra = {}
        self.findings = [f for f in load_findings().get("findings", []) if f.get("property") == prop]
        self.solver_time = 0.0
        self.by_backend = {}

    # -- obligations --------------------------------------------------------------------------
    def ob(self, name, status, backend="", time_s=0.0, kind="vc", detail=None):
        self.obligations.append(dict(name=name, status=status, backend=backend, time_s=round(time_s, 4), kind=kind))
        self.solver_time += time_s
        if status == "discharged":
            self.by_backend[backend] = self.by_backend.get(backend, 0) + 1
        if len(self.samples) < 12 and status == "discharged":
            self.samples.append({"obligation": name, "backend": backend, **({"detail": detail} if detail else {})})

    def sample(self, s):
        if len(self.samples) < 40:
            self.samples.append(s)

    def match_finding(self, key, witness=None):
        """A violation is 'known' only if a committed finding names exactly this key (and, if given, witness)."""
        for f in self.findings:
            if f.get("key") == key and (f.get("witness") is None or witness is None or f.get("witness") == witness
                                        or (isinstance(f.get("witnesses"), list) and witness in f["witnesses"])):
                return f
        return None

    def violation(self, key, detail, replay_obj=None, witness=None, no_input=False):
        f = self.match_finding(key, witness)
        if f is not None:
            if f not in self.known_hits:
                self.known_hits.append(f)
            return False
        rp = write_replay(self.prop, key, detail, replay_obj)
        self.violations.append(dict(obligation=key, detail=detail, replay=rp, no_input=no_input))
        return True

    # -- finish -------------------------------------------------------------------------------
    def finish(self, checker_cmd=None):
        wall = time.time() - self.t0
        n_ob = len([o for o in self.obligations])
        n_dis = len([o for o in self.obligations if o["status"] == "discharged"])
        cov = {
            "obligations": n_ob, "discharged": n_dis,
            "checker_cmd": checker_cmd or f"python3-vt -m pvc.cli check {self.prop} --tier {self.tier}",
            "trusted_base": sorted(set(self.trusted)),
            "by_backend": self.by_backend, "solver_time_s": round(self.solver_time, 3),
            "functions_under_contract": self.functions,
            "finite_checks": self.finite, "bounded_standins": self.bounded,
            "samples": self.samples[:40] or [{"note": "no sample recorded"}],
            "undischarged": [o for o in self.obligations if o["status"] != "discharged"][:50],
            "known_findings_matched": [f.get("key") for f in self.known_hits],
            "repo_files": repo_state(),
        }
        # exploration-style counts, measured: every finite/bounded case evaluated counts as an evaluation
        ev = sum(int(x.get("evaluations", 0)) for x in self.finite + self.bounded) + n_ob
        dn = sum(int(x.get("distinct_nontrivial", 0)) for x in self.finite + self.bounded) + n_dis
        cov["evaluations"] = ev
        cov["distinct_nontrivial"] = dn
        cov["rule"] = ("evaluations = SMT obligations generated + cases evaluated by the finite decisions and bounded "
                       "stand-ins of this run; distinct_nontrivial = discharged obligations + the distinct non-trivial "
                       "cases each finite/bounded component counted by its own stated rule")
        cov.update(self.extra)
        ev_obj = {
            "property_id": self.prop, "tier": self.tier, "seed": SEED, "level": self.level,
            "coverage": cov, "assumptions": sorted(set(self.assumptions)), "wall_s": round(wall, 3),
            "violations": len(self.violations),
        }
        evdir = os.environ.get("PVC_EVIDENCE_DIR") or os.path.join(VERIF, "evidence")
        os.makedirs(evdir, exist_ok=True)
        with open(os.path.join(evdir, f"{self.prop}.json"), "w") as f:
            json.dump(ev_obj, f, indent=1, ensure_ascii=False, default=str)
        for fnd in self.known_hits:
            print(f"KNOWN-FINDING: property={self.prop} {fnd.get('what', fnd.get('key'))}")
        for v in self.violations:
            tail = " no-failing-input-found" if v.get("no_input") else ""
            print(f"VIOLATION property={self.prop} replay={v['replay']}{tail}")
            print(f"  obligation: {v['obligation']}\n  detail: {str(v['detail'])[:600]}")
        lost = [o for o in self.obligations if o["status"] == "unknown" and o.get("kind") == "refinement-lost"]
        for o in lost[:10]:
            # a clause stronger than the property (same TEXT as a chain of operations) no longer verifies, and the languages
            # were found equal on every argument tuple explored: the property held on everything explored, the for-all
            # statement is not proved for this tree (listed under `undischarged` in the evidence)
            print(f"PROOF-LOST (no violation found): {o['name']} ({o['backend'][-160:]})")
        und = [o for o in self.obligations if o["status"] == "unknown" and o.get("kind") != "refinement-lost"]
        print(f"[{self.prop}] tier={self.tier} obligations={n_ob} discharged={n_dis} unknown={len(und)} "
              f"finite={len(self.finite)} bounded={len(self.bounded)} violations={len(self.violations)} "
              f"known={len(self.known_hits)} wall={wall:.1f}s")
        if self.violations:
            return EXIT_VIOLATION
        if und:
            for o in und[:10]:
                print(f"UNDECIDED obligation {o['name']} ({o['backend']})")
            return EXIT_UNDECIDED
        return EXIT_OK


def write_replay(prop, key, detail, replay_obj):
    d = os.path.join(VERIF, "replays", prop)
    os.makedirs(d, exist_ok=True)
    safe = "".join(ch if ch.isalnum() or ch in "-_." else "_" for ch in key)[:120]
    path = os.path.join(d, safe + ".json")
    with open(path, "w") as f:
        json.dump({"property": prop, "obligation": key, "detail": detail, "replay": replay_obj}, f, indent=1,
                  ensure_ascii=False, default=str)
    return path
