"""C01 - plain strings are matched literally wherever they are accepted (DESIGN 8/C01).

Proved / decided completely:
 * __escape(s) == ESC(s): a 1-character replace is a character-wise map (E5), so __escape is determined by its values
   on single characters; those are checked for ALL 0x110000 code points on the real function, and the side conditions of
   E5 (every replaced item is one character, none is the backslash, the backslash is doubled first) are read off the AST;
 * R1: ESC(c) parses to the literal c for every code point (exhaustive);
 * __init__ escapes iff `escape`; _to_pregex wraps every str; every public position that accepts a str (enumerated from
   the annotations each run) has a contract whose reference contains the argument only as ESC(arg) (VCs of C02);
 * literal operands satisfy Inv: bounded stand-in B1 restricted to literal leaves."""
import ast
from .. import vcrun, extract
from ..common import native, SEED
from . import _b1, _groups as GR
from . import _f7

LEVEL = "proof"


def escape_side_conditions(idx):
    fi = idx.func("pregex.core.pre.Pregex.__escape")
    body = [s for s in fi.node.body if not (isinstance(s, ast.Expr) and isinstance(s.value, ast.Constant))]
    ok = len(body) == 3
    chars = None
    try:
        a0, loop, ret = body
        ok = ok and isinstance(a0, ast.Assign) and ast.unparse(a0) == "pattern = pattern.replace('\\\\', '\\\\\\\\')"
        ok = ok and isinstance(loop, ast.For) and isinstance(loop.iter, (ast.Set, ast.Tuple, ast.List))
        chars = [e.value for e in loop.iter.elts]
        ok = ok and all(isinstance(c, str) and len(c) == 1 and c != "\\" for c in chars) and len(set(chars)) == len(chars)
        ok = ok and len(loop.body) == 1 and ast.unparse(loop.body[0]) == "pattern = pattern.replace(c, f'\\\\{c}')" \
            and ast.unparse(loop.target) == "c"
        ok = ok and isinstance(ret, ast.Return) and ast.unparse(ret.value) == "pattern"
    except Exception:
        ok = False
    return ok, chars


def str_positions(idx):
    """public constructors / methods with a parameter annotated as `Pregex | str` (Union[Pregex, str])"""
    out = []
    for mname in ("pregex.core.pre", "pregex.core.operators", "pregex.core.quantifiers", "pregex.core.groups", "pregex.core.assertions"):
        for ci in idx.modules[mname].classes.values():
            for name, fi in ci.methods.items():
                if name.startswith("_Pregex__") or (name.startswith("_") and not name.startswith("__")):
                    continue
                node = fi.node
                for a in node.args.args + ([node.args.vararg] if node.args.vararg else []):
                    if a.annotation is not None:
                        t = ast.unparse(a.annotation)
                        if "Pregex" in t and "str" in t:
                            out.append((fi.qualname, a.arg))
    return sorted(set(out))


def run(rep, tier):
    idx = extract.Index()
    ok, chars = escape_side_conditions(idx)
    rep.ob("Pregex.__escape: E5 side conditions (backslash doubled first; one-character items; backslash not among them)",
           "discharged" if ok else "unknown", "ast-scan", 0, kind="structure", detail={"escaped_set": chars})
    r = native("run_module", {"module": "pvc.bex_misc", "func": "escape_check",
                              "args": {"n_random": 3000 if tier == "quick" else 200000, "seed": SEED}})
    good = not r["bad_single"] and not r["bad_multi"]
    rep.ob("Pregex.__escape(c) == ESC(c) for every code point c (exhaustive on the real function)",
           "discharged" if good and ok else ("failed" if not good else "unknown"), "cpython-exhaustive", 0, kind="finite")
    rep.finite.append({"what": "__escape on all single characters", "evaluations": r["single_chars"],
                       "distinct_nontrivial": len(chars or []) + 1, "exhaustive": True,
                       "rule": "non-trivial = characters that must change (escape set + backslash)"})
    rep.bounded.append({"function": "Pregex.__escape / Pregex(s) on multi-character strings", "contract": "== ESC(s); exact-matches s, "
                        "not s minus / plus its last character", "bound": f"{r['random_strings']} random strings over metacharacters, len <= 8",
                        "evaluations": r["random_strings"], "distinct_nontrivial": r["random_strings"], "rule": "random strings"})
    if not good:
        w = (r["bad_single"] + r["bad_multi"])[0]
        s = chr(w) if isinstance(w, int) else w
        rep.violation("Pregex.__escape == ESC", {"input": s, "bad_single": r["bad_single"], "bad_multi": r["bad_multi"]},
                      {"kind": "python", "code": f"s = {s!r}\np = Pregex(s)\nobserved = (str(p), p.is_exact_match(s))\n"
                                                   f"violated = not p.is_exact_match(s) or any(p.is_exact_match(t) for t in (s + 'x', s[:-1]) if t != s)"},
                      witness=s)
    r1 = native("run_module", {"module": "pvc.bex_misc", "func": "r1_validate", "args": {}})
    rep.ob("R1: ESC(c) parses to LITERAL c for every code point (exhaustive)", "discharged" if not r1["bad"] else "failed",
           "cpython-exhaustive", 0, kind="finite")
    # every position that accepts a str has a contract
    import contracts
    pos = str_positions(idx)
    rep.extra["positions_accepting_str"] = [f"{q}({a})" for q, a in pos]
    for q, a in pos:
        if q.split(".")[-2].startswith("__"):
            continue            # template base classes (name-mangled, not public): verified inlined in each subclass
        if q not in contracts.ALL:
            rep.ob(f"{q}: position `{a}` accepts str and has a contract", "failed", "inventory", 0, kind="inventory")
            rep.violation(f"{q}: accepts a str but has no contract", {"function": q, "parameter": a}, None, no_input=True)
    funcs = sorted({q for q, _ in pos if q in contracts.ALL and "params" in contracts.ALL[q]} | set(GR.HELPERS) | {GR.P + "__init__", GR.P + "_to_pregex"})
    vcrun.run_functions(rep, funcs, tier)
    _f7.decide(rep)      # F7: type and repeatable flag of EVERY literal string (regular-language facts about the real regexes)
    _b1.run(rep, tier, ["category", "flag", "total", "empty"], "literal leaves and one/two steps on them")
    rep.trusted += GR.TRUST + ["E5: str.replace(c, w) with len(c) == 1 is the character-wise map c -> w"]
