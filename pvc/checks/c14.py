"""C14 - file sources and context windows refer to the text, not the path (DESIGN 8/C14).

Proved: every public method with an is_path parameter (enumerated from the signatures on every run) satisfies its
contract with text = READ(path) when is_path and text = source otherwise - the same oracle term, so
m(path, True) == m(READ(path), False); context windows equal text[max(s-nl,0):min(e+nr,len(text))] and the four
argument exceptions are raised iff documented; a window contains its match (slice lemma)."""
import ast
from .. import vcrun, extract
from . import _g5, c13

LEVEL = "proof"


def run(rep, tier):
    idx = extract.Index()
    pre = idx.modules["pregex.core.pre"].classes["Pregex"]
    with_is_path = sorted({fi.qualname for fi in pre.methods.values() if "is_path" in fi.params})
    import contracts
    missing = [q for q in with_is_path if q not in contracts.ALL]
    for q in missing:
        rep.ob(f"{q}: has a contract", "failed", "inventory", 0, kind="inventory")
        rep.violation(f"{q}: method with is_path but no contract", {"function": q}, None, no_input=True)
    rep.extra["methods_with_is_path"] = with_is_path
    vcrun.run_functions(rep, [q for q in with_is_path if q in contracts.ALL] + _g5.FILES, tier)
    c13.reconstruction_lemma(rep)
    for q in _g5.CONTEXT + [_g5.P + "get_matches", _g5.P + "replace"]:
        vcrun.run_bounded(rep, q, tier, "run-time evaluation of the proved contract on the real code incl. real UTF-8 files "
                                       "(cross-check; not counted as proof)", limit=800 if tier == "quick" else 30000)
    rep.trusted += _g5.R8 + ["READ(path) = open(path, 'r', encoding='utf-8').read() (universal newlines)"]
