"""C15 - Integer patterns match exactly the canonical numerals inside the range (DESIGN 8/C15).

Bounded in the parameters (start, end), complete in the text: for each parameter pair of the stated finite set the real
constructor is executed and the language of possible matches of the emitted regex, in EVERY context (text start / end,
spaces, letters, signs, digits ...), is decided against the specification language by regular-language inclusion in
both directions (SMT regex theory + derivative-product procedure).  Sign variants and is_extensible likewise."""
import itertools, random
from .. import lang, vcrun, rx2smt as R
from ..common import native, SEED
from specs.build import B
from specs import numerals
from . import _b1

LEVEL = "exploration"
E = "pregex.meta.essentials."
EDGES = [0, 1, 5, 9, 10, 11, 19, 20, 99, 100, 101, 109, 123, 199, 900, 999, 1000]


def spec_T(b, W, kind, lo, hi, ext):
    """kind: Integer / IntegerSigned / PositiveInteger / NegativeInteger / UnsignedInteger"""
    canon = numerals.canonical(b, lo, hi)
    D = R.ASCII_D
    signs = R.cs_of("+-")
    any_ = b.any_star
    if ext:
        left_plain = b.ending_in(R.cs_minus(b.U, D))           # a preceding non-digit character is required
        right = any_
        if kind == "Integer":
            return R.cat(left_plain, R.MARK, canon, R.MARK, right)
        if kind == "IntegerSigned":
            return R.cat(left_plain, R.MARK, b.seq(b.chars("+-"), canon), R.MARK, right)
        if kind == "PositiveInteger":
            return R.cat(any_, R.MARK, b.seq(b.lit("+"), b.alt()), R.MARK, right)  # refined below
        return None
    left = b.not_ending_in(W)
    left_nosign = b.not_ending_in(R.cs_union(W, signs))
    right = b.not_starting_with(W)
    if kind == "Integer":
        return R.cat(left, R.MARK, canon, R.MARK, right)
    if kind == "UnsignedInteger":
        return R.cat(left_nosign, R.MARK, canon, R.MARK, right)
    if kind == "NegativeInteger":
        return R.cat(left, R.MARK, b.seq(b.lit("-"), canon), R.MARK, right)
    if kind == "PositiveInteger":
        return R.alt(R.cat(left, R.MARK, b.seq(b.lit("+"), canon), R.MARK, right),
                     R.cat(left_nosign, R.MARK, canon, R.MARK, right))
    if kind == "IntegerSigned":
        return R.alt(R.cat(left, R.MARK, b.seq(b.chars("+-"), canon), R.MARK, right),
                     R.cat(left_nosign, R.MARK, canon, R.MARK, right))
    return None


def run(rep, tier):
    n = native("run_module", {"module": "specs.numerals", "func": "self_test"})
    rep.extra["spec_generator_self_test_ranges"] = n
    U = lang.universe_default()
    b = B(U)
    W = R.cs_inter(R.categories()["w"], U)
    rnd = random.Random(SEED + 15)
    pairs = [(a, z) for a in EDGES for z in EDGES if a <= z]
    if tier == "quick":
        keep = [(0, 999), (0, 109), (5, 123), (99, 1000), (0, 0), (10, 10), (3, 10), (0, 9), (1, 1000), (19, 101), (100, 199), (0, 2147483647)]
        pairs = keep + rnd.sample([p for p in pairs if p not in keep], 28)
    else:
        pairs = pairs + [(a, z) for a in range(0, 60) for z in range(a, 60)] + [(0, 2147483647), (10, 2147483647)] + \
            [tuple(sorted((rnd.randint(0, 10 ** 6), rnd.randint(0, 10 ** 6)))) for _ in range(300)]
    # digit-pattern covering: __integer treats the bounds digit by digit, and what it emits at a position depends on whether the
    # prefixes are still equal and on the kind of digit pair there - (0, 9), start digit below / above the end digit, equal
    # digits.  Every combination of those kinds over three positions (four in the thorough tier), same digit count:
    kinds0 = [(1, 9), (2, 7), (5, 5)]
    kinds = [(0, 9), (2, 7), (7, 2), (5, 5)]
    structural = []
    for combo in itertools.product(kinds0, *([kinds] * (2 if tier == "quick" else 3))):
        a = int("".join(str(d[0]) for d in combo))
        z = int("".join(str(d[1]) for d in combo))
        if a <= z and (a, z) not in structural:
            structural.append((a, z))
    structural += [(27, 1905), (905, 12095)]                     # different digit counts with a (0, 9) position inside
    pairs = pairs + [p for p in structural if p not in pairs]
    cases = []
    for lo, hi in pairs:
        cases.append((f"Integer({lo}, {hi})", "Integer", lo, hi, False))
    sub = pairs[:8] if tier == "quick" else pairs[:120]
    for lo, hi in sub:
        cases.append((f"Integer({lo}, {hi}, is_extensible=True)", "Integer", lo, hi, True))
        cases.append((f"UnsignedInteger({lo}, {hi})", "UnsignedInteger", lo, hi, False))
        cases.append((f"NegativeInteger({lo}, {hi})", "NegativeInteger", lo, hi, False))
        cases.append((f"PositiveInteger({lo}, {hi})", "PositiveInteger", lo, hi, False))
        cases.append((f"Integer({lo}, {hi}, include_sign=True)", "IntegerSigned", lo, hi, False))
    built = lang.build([c[0] for c in cases])
    jobs = []
    for (e, kind, lo, hi, ext), p in zip(cases, built):
        if "pattern" not in p or "tree" not in p.get("parsed", {}):
            rep.violation(f"{e}|constructs", {"expr": e, "result": {k: v for k, v in p.items() if k != 'parsed'}}, {"kind": "expr", "expr": e})
            continue
        T = spec_T(b, W, kind, lo, hi, ext)
        if T is None:
            continue
        jobs.append(lang.Job(e, e, p["pattern"], p["parsed"]["tree"], T, T, U))
    xc = lang.decide(rep, jobs, timeout=30, samples_per_job=25 if tier == "quick" else 100)
    rep.bounded.append({"id": "B5", "function": "pregex.meta.essentials.__Integer.__integer (and the Integer classes end to end)",
                        "contract": "a digit run is matched iff it is a canonical numeral with start <= v <= end, never a proper part "
                                    "of a longer run, in every context; sign variants per their documented rules",
                        "bound": f"parameters: {len(pairs)} (start, end) pairs from the edge values {EDGES} "
                                 f"{'(sampled)' if tier == 'quick' else 'plus all pairs < 60 and 300 random pairs < 10^6'}; "
                                 "for each pair the decision is complete over ALL texts and contexts",
                        "evaluations": len(jobs), "distinct_nontrivial": len({(c[1], c[2], c[3], c[4]) for c in cases}),
                        "rule": "distinct (class, start, end, is_extensible)"})
    rep.extra["translator_crosscheck"] = xc
    # argument validation of the template constructor, for ALL integers and every other argument kind (VCs)
    vcrun.run_functions(rep, [E + c + ".__init__" for c in ("__Integer", "Integer", "PositiveInteger", "NegativeInteger", "UnsignedInteger")], tier)
    # the chain clauses above rest on the combinators' contracts, which assume the class invariant (contract of __infer_type):
    # its stand-in runs here too (an affix / sign / format text that is mistyped breaks the composition)
    _b1.run(rep, tier, ["category", "total"], "syntactic category of every emitted text (the meta patterns are compositions)")
    rep.trusted += ["R3, R4, R6, R7", "rx2smt translator (cross-checked against CPython each run)", "z3 regex theory and the "
                    "derivative-product procedure (must agree)", "specs/numerals.py (self-tested against brute force each run)"]
    rep.assumptions += ["digit runs glued to letters / underscore are not matched in the non-extensible form (documented "
                        "word-boundary design)", "Unicode-only digits are excluded from the texts"]
