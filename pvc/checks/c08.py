"""C08 - capturing-group structure is exactly what the expression spells out (DESIGN 8/C08).

Proved: capture(name) / group(is_case_insensitive) for every operand type and, for Group-typed operands, every shape
Inv lists ((?:B), (?i:B), (B), (?P<N>B), lone negative look-arounds, conditionals, named back-references): the result
parses to the reference text's tree - number, order and NAMES of capturing groups included; names are validated iff
documented (regular-language predicates); class forms equal method forms."""
from .. import vcrun
from ..common import native
from . import _b1, _groups as GR
from ._groups import EXC

LEVEL = "proof"


def run(rep, tier):
    vcrun.run_functions(rep, GR.G3 + GR.W_GROUPS + GR.HELPERS + GR.G2 + EXC, tier)
    for q in GR.G3:
        vcrun.run_bounded(rep, q, tier, "run-time evaluation of the proved contract on the real code (cross-check; names incl. "
                                       "non-ASCII and re-invalid ones; not counted as proof)", limit=1500 if tier == "quick" else 30000)
    _b1.run(rep, tier, ["category", "total"], "group-typed results are atoms")
    rep.trusted += GR.TRUST + ["R9 scoped flags: (?i:X) makes exactly X ignore case"]
