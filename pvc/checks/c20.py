"""C20 - Pregex objects are immutable values; results do not depend on history (DESIGN 8/C20).

Proved: (1) frame scan over the whole package, every run: the only attribute stores are the constructors' own fields and
the compiled-pattern cache in compile() / get_compiled_pattern(); no setattr, global, mutating call on a field, store into
a class-level table.  (2) frame clauses of the contracts (VCs): no method writes a field of `self` or of an operand outside
its `frame`.  (3) the cache is unobservable (cache invariant, C11).  (4) results are functions of operand FIELDS only:
the executor gives code no access to global mutable state, and set iteration is order-free where it matters (C01:
__escape; class layer: __or / __sub and the interval functions are proved for an arbitrary enumeration of every set they
iterate, plus bounded stand-ins under several hash seeds).  Bounded stand-in B20 exercises random histories."""
from .. import vcrun, framescan
from ..common import native, SEED
from . import _groups as GR, _g5

LEVEL = "proof"


def run(rep, tier):
    r = framescan.scan()
    rep.extra["attribute_stores"] = [f"{o}: {t}.{a} (line {ln})" for o, a, ln, t in r["stores"]]
    for o, a, ln, tgt in r["not_allowed"]:
        rep.ob(f"frame: {o} stores {tgt}.{a}", "failed", "frame-scan", 0, kind="frame")
        rep.violation(f"frame: {o} stores to {tgt}.{a}", {"function": o, "field": a, "line": ln, "target": tgt}, None, no_input=True)
    for o, ln, what in r["suspicious"]:
        rep.ob(f"frame: {o} line {ln}: {what}", "failed", "frame-scan", 0, kind="frame")
        rep.violation(f"frame: {o}: {what}", {"function": o, "line": ln, "what": what}, None, no_input=True)
    rep.ob(f"frame scan: {len(r['stores'])} attribute stores, all within the allowed list; no other state-changing construct",
           "discharged" if not r["not_allowed"] and not r["suspicious"] else "failed", "frame-scan", 0, kind="frame")
    funcs = GR.HELPERS + GR.G1 + GR.G2 + GR.G3 + GR.G4A + GR.G4L + _g5.MATCHING + _g5.CACHE + [_g5.P + "replace", _g5.P + "split_by_match"]
    # the class algebra is where python sets are iterated: __or / __sub and their nested functions are proved over an ARBITRARY
    # enumeration of those sets (abstract item sets, lists in arbitrary order), i.e. for every hash seed
    K = "pregex.core.classes.__Class."
    funcs += [K + "__or", K + "__sub", K + "__or.<locals>.reduce_ranges", K + "__or.<locals>.reduce_chars",
              K + "__sub.<locals>.subtract_ranges"] + [K + m for m in ("__or__", "__ror__", "__sub__", "__rsub__", "__invert__")]
    vcrun.run_functions(rep, funcs, tier)
    n = 300 if tier == "quick" else 5000
    b = native("run_module", {"module": "pvc.bex_history", "func": "run", "args": {"n": n, "seed": SEED}}, timeout=3600)
    rep.bounded.append({"id": "B20", "function": "whole API (histories)", "contract": "operands unchanged by any use; rebuilt expressions "
                        "have the same text", "bound": f"{n} random histories of 5-25 operations over 15 shared operands",
                        "evaluations": b["evaluations"], "distinct_nontrivial": b["histories"], "rule": "distinct random histories"})
    for f in b["failures"][:5]:
        rep.violation("B20: operand changed by a history / rebuilt expression differs", f, None, no_input=True)
    rep.trusted += ["frame scan is syntactic over the package source (no exec/eval/ctypes in the package: checked)",
                    "R8: purge() has no observable effect", "VC generator pvc/symex.py + E1-E12"] + _g5.R8[:2]
    rep.assumptions += ["equivalence across PYTHONHASHSEED values for class text: bounded stand-ins B2/B3 of C06/C07 (sets equal, texts may differ)"]
