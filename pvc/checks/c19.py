"""C19 - Date patterns match exactly the selected numeric formats.

Complete finite decision for every single documented format (48) and for formats=None, both is_extensible settings:
the emitted regex's language of possible matches in all contexts equals the language generated from the format
string by specs/dates.py, for all texts (SMT regex theory, both inclusions).  Subsets: sampled subsets are decided
the same way (bounded in the subset, complete in the text).  Argument validation: see contracts (meta validation)."""
import random
from .. import lang, vcrun, rx2smt as R
from ..common import native, SEED
from specs.build import B
from specs import dates
from . import _b1

LEVEL = "proof"


def run(rep, tier):
    U = lang.universe_default()
    b = B(U)
    W = R.cs_inter(R.categories()["w"], U)
    fmts = dates.documented_formats()
    # 1. the library's own list of valid formats equals the documented one (as a set, and 48 distinct)
    got = native("run_module", {"module": "pvc.bex_misc", "func": "date_formats"})
    if sorted(got) != sorted(fmts) or len(set(got)) != 48:
        rep.ob("Date.__date_formats==documented", "failed", "cpython", 0, kind="finite")
        rep.violation("Date.__date_formats==documented",
                      {"missing": sorted(set(fmts) - set(got)), "extra": sorted(set(got) - set(fmts))},
                      {"kind": "expr", "expr": "Date._Date__date_formats()"})
    else:
        rep.ob("Date.__date_formats==documented", "discharged", "cpython-exhaustive", 0, kind="finite")
    rnd = random.Random(SEED + 19)
    subsets = []
    for _ in range(12 if tier == "quick" else 80):
        k = rnd.choice([2, 2, 3, 5, 9])
        subsets.append(rnd.sample(fmts, k))
    cases = []  # (expr, [formats], ext)
    for ext in (True, False):
        for f in fmts:
            cases.append((f"Date({f!r}, is_extensible={ext})", [f], ext))
            if tier == "thorough":
                cases.append((f"Date([{f!r}], is_extensible={ext})", [f], ext))
        cases.append((f"Date(None, is_extensible={ext})", fmts, ext))
        cases.append((f"Date(is_extensible={ext})", fmts, ext))
        for s in subsets:
            cases.append((f"Date({s!r}, is_extensible={ext})", s, ext))
    built = lang.build([c[0] for c in cases])
    jobs = []
    for (e, fs, ext), p in zip(cases, built):
        if "pattern" not in p or "tree" not in p.get("parsed", {}):
            rep.ob(f"{e}|constructs", "failed", "cpython", 0, kind="finite")
            rep.violation(f"{e}|constructs", {"expr": e, "result": {k: v for k, v in p.items() if k != 'parsed'}},
                          {"kind": "expr", "expr": e})
            continue
        spec = b.alt(*[dates.language(b, f) for f in fs])
        if ext:
            T = R.cat(b.any_star, R.MARK, spec, R.MARK, b.any_star)
        else:
            T = R.cat(b.not_ending_in(W), R.MARK, spec, R.MARK, b.not_starting_with(W))
        jobs.append(lang.Job(e, e, p["pattern"], p["parsed"]["tree"], T, T, U))
    xc = lang.decide(rep, jobs, timeout=60, samples_per_job=30 if tier == "quick" else 150)
    # 2. argument validation on a finite set of undocumented formats (bounded; the for-all version is the contract
    #    of Date.__init__'s validation block)
    bad = ["", "dd/xx/yyyy", "mm/yyyy/dd", "DD/MM/YYYY", "d/m/y", "dd.mm.yyyy", "dd/mm-yyyy", "yyyy/dd/mm", "dd/mm/yyyy ",
           "ddd/mm/yy", "d/m/yyy", "yy/yy/yy", "/", "dd/mm"]
    exprs = [f"Date({x!r})" for x in bad] + [f"Date(['dd/mm/yyyy', {x!r}], is_extensible=True)" for x in bad]
    res = native("build_patterns", {"exprs": exprs})
    nbad = 0
    for e, r in zip(exprs, res):
        if r.get("exception") != "InvalidArgumentValueException":
            nbad += 1
            rep.violation(f"{e}|raises InvalidArgumentValueException", {"expr": e, "observed": r},
                          {"kind": "expr", "expr": e}, witness=e)
    rep.bounded.append({"function": "pregex.meta.essentials.Date.__init__ (format validation)",
                        "contract": "raises InvalidArgumentValueException iff some format is not documented",
                        "bound": f"{len(exprs)} undocumented format strings (alone and inside a list)",
                        "evaluations": len(exprs), "distinct_nontrivial": len(set(bad)),
                        "rule": "distinct undocumented strings"})
    rep.finite.append({"what": "all 48 documented formats x is_extensible, plus formats=None, decided for all texts; "
                               f"{len(subsets)} sampled subsets likewise",
                       "evaluations": len(cases), "distinct_nontrivial": len({(tuple(fs), ext) for _, fs, ext in cases}),
                       "exhaustive": True, "rule": "distinct (format set, is_extensible)"})
    rep.extra["translator_crosscheck"] = xc
    # 3. the validation block as a contract: raises InvalidArgumentValueException iff some selected format is not one
    #    of the 48 documented ones, for None / any string / lists of up to 3 arbitrary strings (VCs); __date_formats
    #    returns exactly the documented set (VC)
    vcrun.run_functions(rep, ["pregex.meta.essentials.Date.__init__", "pregex.meta.essentials.Date.__date_formats"], tier)
    # the chain clauses above rest on the combinators' contracts, which assume the class invariant (contract of __infer_type):
    # its stand-in runs here too (an affix / sign / format text that is mistyped breaks the composition)
    _b1.run(rep, tier, ["category", "total"], "syntactic category of every emitted text (the meta patterns are compositions)")
    rep.assumptions.append("validation VCs: lists of formats are enumerated up to length 3 with arbitrary contents")
    rep.functions["pregex.meta.essentials.Date.__init__"] = "postcondition on the emitted language, all texts, per format"
    rep.functions["pregex.meta.essentials.Date.__date_pre"] = "via Date.__init__ on each single format"
    rep.functions["pregex.meta.essentials.Date.__date_formats"] = "result compared with the documented list (exhaustive)"
    rep.trusted += ["R3 quantifiers", "R4 grouping", "R6 zero-width items", "R7 bracket expressions",
                    "rx2smt translator (cross-checked against CPython on sampled texts this run)",
                    "CPython re._parser as reader of the emitted pattern", "SMT solvers' regex theory",
                    "specs/dates.py (format table written from the documentation)"]
    rep.assumptions += ["texts range over all code points except those that only the Unicode-aware \\d and \\s add",
                        "arbitrary subsets of formats: only sampled subsets are decided directly; the general case "
                        "rests on Either's contract (C02)"]
