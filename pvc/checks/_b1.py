"""Shared driver of the B1 bounded stand-in (contract of Pregex.__infer_type = class invariant Inv), see pvc/bex_infer.py.
Each property that assumes Inv runs it and reports the clauses that concern it."""
import re
from ..common import native, SEED

CLAUSES = {
    "category": ("typed ",),
    "flag": ("direct anchor", "no anchor or positive"),
    "valid": ("the emitted text is not a valid regex",),
    "total": ("crashed with",),
    "empty": ("Empty type iff",),
}


def classify(f):
    """known regions (see known_findings.json); anything else is a new violation"""
    t = f.get("text") or ""
    names = re.findall(r"\(\?P<([^>]+)>", t)
    if f["what"].startswith("the emitted text is not a valid regex"):
        if len(names) != len(set(names)):
            return "B1:valid:same-group-name-twice"
        if re.search(r"(?<!\\)(?:\\\\)*\\[1-9]\d", t):
            return "B1:valid:numeric-backreference-followed-by-digit"
        if re.search(r"\(\?P<[^>]+>\?(?:\(|P=|!|<!)", t) or re.search(r"\(\?P<[^>]+>\?", t):
            return "B1:valid:capture-of-conditional-backreference-or-negative-lookaround"
    return "B1:" + f["what"][:60] + ":" + f["expr"][:80]


def run(rep, tier, which, label):
    seeds = [0, 1] if tier == "quick" else [0, 1, 2, 3, 5, 8, 13, 21]
    total = 0
    sigs = 0
    nfail = 0
    leaves = 0
    for hs in seeds:
        r = native("run_module", {"module": "pvc.bex_infer", "func": "run",
                                  "args": {"tier": tier, "seed": SEED + hs}}, hashseed=hs, timeout=7200)
        total += r["evaluations"]
        sigs = max(sigs, r["distinct_signatures"])
        leaves = r["leaves"]
        seen_keys = set()
        per_what = {}
        for f in r["failures"]:
            if not any(f["what"].startswith(p) for w in which for p in CLAUSES[w]):
                continue
            nfail += 1
            key = classify(f)
            if key in seen_keys:
                continue
            seen_keys.add(key)
            per_what[f["what"]] = per_what.get(f["what"], 0) + 1
            if per_what[f["what"]] > 6 and rep.match_finding(key) is None:
                continue   # enough witnesses of this clause are reported; the count is in the evidence
            code = ("p = %s\nobserved = (str(p), p._get_type().name, p._is_repeatable())\nviolated = True" % f["expr"]) \
                if not f["what"].startswith("crashed") else \
                ("try:\n    p = %s\n    violated = False\n    observed = str(p)\nexcept RecursionError as e:\n    violated = True\n"
                 "    observed = 'RecursionError'\nexcept Exception as e:\n    observed = type(e).__name__\n"
                 "    violated = not type(e).__module__.startswith('pregex')" % f["expr"])
            rep.violation(key, {"stand_in": "B1", "hash_seed": hs, **{k: f.get(k) for k in ("expr", "text", "type", "repeatable", "what")}},
                          {"kind": "python", "code": code}, witness=None)
    rep.bounded.append({
        "id": "B1", "function": "pregex.core.pre.Pregex.__infer_type (with remove_groups, __is_group)",
        "contract": "for every text one or two DSL steps emit from Inv-operands: terminates; inferred type adequate for "
                    "the syntactic category (decided by CPython's parser); repeatable flag False for direct anchors / "
                    "positive look-arounds and True for anchor-free patterns",
        "clauses_reported_here": which,
        "bound": f"leaves: {leaves} (escaped literals up to length {'3' if tier == 'thorough' else '2'} over the "
                 "metacharacter alphabet, class / token / reference leaves); every unary method, every binary method over the "
                 f"reduced operand set; second step on a sample; PYTHONHASHSEED in {seeds}",
        "evaluations": total, "distinct_nontrivial": sigs,
        "rule": "distinct_nontrivial = distinct (inferred type, category, flag, direct, anchored) signatures observed",
        "failures_in_scope": nfail, "label": label})
    return total
