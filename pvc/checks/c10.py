"""C10 - look-behind assertions are accepted iff their pattern has one fixed width (DESIGN 8/C10).

After the fix (the guard asks re itself) the obligation is wiring relative to axiom R6: preceded_by / enclosed_by /
not_preceded_by / not_enclosed_by (and the class forms) raise NonFixedWidthPatternException iff FIXEDW(pattern) is
false, where FIXEDW(X) <=> re.compile('(?<=X)') does not raise its fixed-width error; __is_fixed_width is proved
against that.  R6's width rule itself (fixed width <=> structural wmin == wmax) is validated by the bounded stand-in B6."""
from .. import vcrun
from ..common import native, SEED
from . import _groups as GR
from ._groups import EXC

LEVEL = "proof"


def run(rep, tier):
    vcrun.run_functions(rep, GR.G4L + GR.W_LOOK + GR.HELPERS + EXC, tier)
    n = 3000 if tier == "quick" else 60000
    r = native("run_module", {"module": "pvc.bex_width", "func": "run", "args": {"n": n, "seed": SEED}}, timeout=3600)
    rep.bounded.append({"id": "B6", "function": "re's fixed-width rule (axiom R6) vs structural width of DSL expressions",
                        "contract": "NonFixedWidthPatternException iff structural wmin != wmax; accepted patterns compile",
                        "bound": f"{n} generated DSL expressions, depth <= 3, x 4 look-behind methods",
                        "evaluations": r["evaluations"], "distinct_nontrivial": r["variable_width"],
                        "rule": "distinct_nontrivial = expressions of variable width among those generated"})
    for f in r["failures"]:
        code = f"from pregex.core.exceptions import NonFixedWidthPatternException\ntry:\n    r = getattr(Pregex('x'), {f['method']!r})({f['expr']})\n" \
               f"    observed = str(r); raised = False\nexcept NonFixedWidthPatternException:\n    observed = 'NonFixedWidthPatternException'; raised = True\n" \
               f"violated = (raised == {f.get('structural_width', [0, 0])[0] == f.get('structural_width', [0, 1])[1]})"
        rep.violation("B6: " + f["method"] + " " + f["expr"][:80], f, {"kind": "python", "code": code})
    rep.trusted += GR.TRUST
