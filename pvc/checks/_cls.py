"""Shared pieces of the class-layer checks (C06, C07)."""
from ..common import native, SEED


def seeds(tier):
    return [0, 1, 2] if tier == "quick" else [0, 1, 2, 3, 5, 8, 13, 21, 34, 55, 89, 144]


def run_named(rep):
    r = native("run_module", {"module": "pvc.bex_classes", "func": "named_classes", "args": {}}, timeout=1800)
    rep.finite.append({"what": "every zero-argument Any*/AnyBut* class (incl. is_global variants), ~A vs AnyBut*, and every token: "
                               "membership of all 0x110000 code points against specs/charsets.py",
                       "evaluations": r["evaluations"], "distinct_nontrivial": r["evaluations"], "exhaustive": True,
                       "rule": "one per class / token; each decides all code points"})
    for f in r["failures"]:
        expr = f["class"]
        code = f"p = {expr}\nobserved = str(p)\nviolated = True"
        rep.ob(f"{expr}: denotes its documented set (all code points)", "failed", "cpython-exhaustive", 0, kind="finite")
        rep.violation(f"named class {expr}", f, {"kind": "python", "code": code}, witness=expr)
    if not r["failures"]:
        rep.ob("named classes and tokens denote their documented sets (all code points, exhaustive)", "discharged",
               "cpython-exhaustive", 0, kind="finite")
    return r


def run_bounded(rep, tier, func, label, contract):
    total = 0
    fails = {}
    hs_list = seeds(tier)
    uni = 0
    for hs in hs_list:
        r = native("run_module", {"module": "pvc.bex_classes", "func": func, "args": {"tier": tier, "seed": SEED + hs}},
                   hashseed=hs, timeout=7200)
        total += r["evaluations"]
        uni = r["universe"]
        for f in r["failures"]:
            key = f.get("expr") or f"{f.get('ctor')}({', '.join(map(str, f.get('args', [])))}, neg={f.get('neg')})"
            fails.setdefault(key, (hs, f))
    rep.bounded.append({"id": label, "function": "pregex.core.classes.__Class (text layer: __process, __extract_classes, "
                        "__separate_classes, __modify_classes, __chars_to_ranges, __invert__, __or, __sub)",
                        "contract": contract,
                        "bound": f"distinguished characters and their neighbours, class pool of pvc/bex_classes.py; membership over "
                                 f"{uni} interesting code points; PYTHONHASHSEED in {hs_list}",
                        "evaluations": total, "distinct_nontrivial": total // max(1, len(hs_list)),
                        "rule": "distinct_nontrivial = distinct expressions (each evaluated under every hash seed)"})
    n = 0
    for key, (hs, f) in fails.items():
        n += 1
        if n > 12:
            break
        if "expr" in f:
            expr = f["expr"].replace(" sub ", " - ").replace(" or ", " | ")
            if " negor " in expr or " negsub " in expr:
                a, op, b = expr.partition(" negor ") if " negor " in expr else expr.partition(" negsub ")
                expr = f"(~{a}) {'|' if 'or' in op else '-'} (~{b})"
            if expr.endswith(" inv None"):
                expr = "~" + expr[:-9]
        else:
            ctor = {("from", False): "AnyFrom", ("from", True): "AnyButFrom", ("between", False): "AnyBetween",
                    ("between", True): "AnyButBetween"}[(f["ctor"], f["neg"])]
            expr = f"{ctor}({', '.join(a if a.endswith('()') else repr(a) for a in f['args'])})"
        code = ("try:\n    p = %s\n    observed = str(p)\nexcept Exception as e:\n    observed = type(e).__name__ + ': ' + str(e)\nviolated = True" % expr)
        rep.violation(f"{label}: {expr}", {"hash_seed": hs, **f}, {"kind": "python", "code": code}, witness=expr)
    return total
