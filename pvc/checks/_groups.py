"""Function groups of DESIGN section 6 (qualified names of the functions under contract)."""
P = "pregex.core.pre.Pregex."
HELPERS = [P + n for n in ("_get_type", "_is_repeatable", "__str__", "__get_group_on_concat_rule", "__get_group_on_quantify_rule",
                           "__get_group_on_assert_rule", "_concat_conditional_group", "_quantify_conditional_group",
                           "_assert_conditional_group", "_to_pregex", "__init__")]
G1 = [P + n for n in ("optional", "indefinite", "one_or_more", "exactly", "at_least", "at_most", "at_least_at_most", "__mul__", "__rmul__")]
G2 = [P + n for n in ("concat", "either", "enclose", "__add__", "__radd__")]
G3 = [P + "capture", P + "group"]
G4A = [P + n for n in ("match_at_start", "match_at_end", "match_at_line_start", "match_at_line_end")]
G4L = [P + n for n in ("followed_by", "preceded_by", "enclosed_by", "not_followed_by", "not_preceded_by", "not_enclosed_by", "__is_fixed_width")]
Q = "pregex.core.quantifiers."
O = "pregex.core.operators."
G = "pregex.core.groups."
A = "pregex.core.assertions."
W_QUANT = [Q + c + ".__init__" for c in ("Optional", "Indefinite", "OneOrMore", "Exactly", "AtLeast", "AtMost", "AtLeastAtMost")]
W_OPS = [O + c + ".__init__" for c in ("Concat", "Either", "Enclose")]
W_GROUPS = [G + c + ".__init__" for c in ("Capture", "Group", "Backreference", "Conditional")]
W_ANCH = [A + c + ".__init__" for c in ("MatchAtStart", "MatchAtEnd", "MatchAtLineStart", "MatchAtLineEnd", "WordBoundary", "NonWordBoundary")]
W_LOOK = [A + c + ".__init__" for c in ("FollowedBy", "PrecededBy", "EnclosedBy", "NotFollowedBy", "NotPrecededBy", "NotEnclosedBy")]
# G11: the exception classes' constructors are total (contracts/exc.py) - `raise X(...)` is modelled as raising X
EXC = ["pregex.core.exceptions." + c + ".__init__" for c in (
    "InvalidArgumentValueException", "InvalidArgumentTypeException", "NotEnoughArgumentsException", "InvalidCapturingGroupNameException",
    "CannotBeNegatedException", "CannotBeUnionedException", "CannotBeSubtractedException", "GlobalWordCharSubtractionException",
    "EmptyClassException", "InvalidRangeException", "CannotBeRepeatedException", "NonFixedWidthPatternException",
    "EmptyNegativeAssertionException")]
COMBINATORS = HELPERS + G1 + G2 + G3 + G4A + G4L + W_QUANT + W_OPS + W_GROUPS + W_ANCH + W_LOOK
TRUST = ["R1 literal units (validated exhaustively over all code points each run)", "R2 compositionality (placeholders of the worst "
         "syntactic category the class invariant allows)", "R3 quantifiers", "R4 grouping", "R5 groups", "R6 zero-width items",
         "class invariant Inv of operands and results = contract of Pregex.__infer_type: bounded stand-in B1 only",
         "CPython re._parser (non-optimising alternation parser swapped in) as reader of emitted text",
         "VC generator pvc/symex.py + encoding E1-E12", "z3 5.1; portfolio cvc5 1.0 / z3 4.8 for unknowns"]
