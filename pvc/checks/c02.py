"""C02 - composition keeps every sub-pattern intact (DESIGN 8/C02).

Proved: for every combinator method and every class form (template base constructors inlined), every inferred type of
each operand and every syntactic category Inv allows for it, the emitted text parses - by CPython's own parser - to
the same tree as the FULLY PARENTHESISED reference, so spans and captures coincide on every text; the class forms are
proved textually equal to the method forms.  Relative to Inv, i.e. to the contract of __infer_type for the result of
each step, which the bounded stand-in B1 checks (category clauses)."""
from .. import vcrun
from . import _b1, _groups as GR
from . import _f7

LEVEL = "proof"


def run(rep, tier):
    vcrun.run_functions(rep, GR.COMBINATORS, tier)
    _f7.decide_classes(rep)      # F8: every bracket text is typed Class (an atom for concatenation and repetition)
    _b1.run(rep, tier, ["category", "valid", "total", "empty"], "syntactic category of every emitted text")
    rep.trusted += GR.TRUST
    rep.assumptions += ["hand-written escape=False patterns are out of scope (property C02)",
                        "class forms with *args are verified for the arities / operand kinds listed under "
                        "pvc/specsym.py KIND_TAGS['varpre'] (arity <= 3); the loop body is the same for every arity"]
