"""C13 - splitting and replacing reconstruct the source exactly (DESIGN 8/C13).

Proved: split_by_match - loop invariant `index == end of the previous match and pieces == SPLITS(K)`, post-condition:
one piece per match plus the tail, piece k = text[end_{k-1}:start_k]; replace = re.sub with exactly (pattern, repl,
text, count, MULTILINE|DOTALL) and InvalidArgumentValueException iff count < 0.  Reconstruction (interleaving pieces and
matches rebuilds the text) is a lemma over those pieces and R8's ordering of spans, discharged in the string theory.
split_by_capture is proved against a recursive specification over (match index, group counter): the outer loop is cut on the
matches, the inner one folds over the list CAPPOS(match, include_empty, False, N) by its defining recursion (python slice
semantics, so nested groups are covered too)."""
import z3
from .. import vcrun, smt
from . import _g5

LEVEL = "proof"


def reconstruction_lemma(rep):
    """induction step: text[:e0] ++ text[e0:s1] ++ text[s1:e1] == text[:e1]  for 0 <= e0 <= s1 <= e1 <= len(text);
    base: text[:0] == '' ; closing: text[:e] ++ text[e:] == text."""
    queries = {
        "step": """(declare-const t String)(declare-const e0 Int)(declare-const s1 Int)(declare-const e1 Int)
(assert (and (<= 0 e0) (<= e0 s1) (<= s1 e1) (<= e1 (str.len t))))
(assert (not (= (str.++ (str.substr t 0 e0) (str.substr t e0 (- s1 e0)) (str.substr t s1 (- e1 s1))) (str.substr t 0 e1))))
(check-sat)""",
        "close": """(declare-const t String)(declare-const e Int)
(assert (and (<= 0 e) (<= e (str.len t))))
(assert (not (= (str.++ (str.substr t 0 e) (str.substr t e (- (str.len t) e))) t)))
(check-sat)""",
        "window-contains-match": """(declare-const t String)(declare-const s Int)(declare-const e Int)(declare-const nl Int)(declare-const nr Int)
(assert (and (<= 0 s) (<= s e) (<= e (str.len t)) (<= 0 nl) (<= 0 nr)))
(define-fun a () Int (ite (< (- s nl) 0) 0 (- s nl)))
(define-fun b () Int (ite (> (+ e nr) (str.len t)) (str.len t) (+ e nr)))
(assert (not (= (str.substr (str.substr t a (- b a)) (- s a) (- e s)) (str.substr t s (- e s)))))
(check-sat)""",
    }
    for nm, q in queries.items():
        st, out, bk, dt = smt.run("(set-logic QF_SLIA)\n" + q, "lemma_" + nm, timeout=60, order=["cvc5-1.0", "z3-5.1", "z3-4.8"])
        rep.ob(f"lemma: slices reconstruct the text ({nm})", "discharged" if st == "unsat" else ("failed" if st == "sat" else "unknown"),
               bk, dt, kind="lemma")


def run(rep, tier):
    vcrun.run_functions(rep, _g5.SPLIT + [_g5.P + "iterate_matches_and_pos", _g5.P + "iterate_captures_and_pos"], tier)
    reconstruction_lemma(rep)
    for q in (_g5.P + "split_by_match", _g5.P + "replace", _g5.P + "split_by_capture"):
        vcrun.run_bounded(rep, q, tier, "run-time evaluation of the proved contract on the real code (cross-check; not "
                                       "counted as proof)", limit=800 if tier == "quick" else 30000)
    rep.trusted += _g5.R8 + ["cvc5 1.0 string theory for the slice lemmas",
                            "R8: re.sub with a plain replacement replaces the first `count` (all if 0) finditer matches"]
    rep.assumptions += ["split_by_capture is specified with python's slice semantics (text[a:b] is empty when b < a): for "
                        "patterns whose capturing groups do not nest - the property's scope - the pieces lie between "
                        "consecutive captured spans", "replacement strings without backslashes or group references"]
