"""C18 - IPv4 / IPv6 accept exactly the standard textual addresses.

Complete finite decision (DESIGN 8/C18): the real constructors are executed for their whole (finite) parameter
domain, and the postcondition about each emitted regex - "the set of its possible matches, in every context, is the
standard's language (with the documented gluing rule for the non-extensible form)" - is decided for ALL texts by
regular-language inclusion in both directions in the solvers' regex theory.  No bound on the texts."""
from .. import lang, rx2smt as R
from ..common import native
from specs.build import B
from specs import ipaddr

LEVEL = "proof"


def run(rep, tier):
    U = lang.universe_default()
    b = B(U)
    exprs = ["IPv4(is_extensible=True)", "IPv4()", "IPv4(is_extensible=False)",
             "IPv6(is_extensible=True)", "IPv6()", "IPv6(is_extensible=False)"]
    built = lang.build(exprs)
    W = R.cs_inter(R.categories()["w"], U)
    glue4 = R.cs_union(R.ASCII_D, R.cs_of("."))
    glue6 = R.cs_union(R.ASCII_D, R.cs_of(":"))
    jobs = []
    for e, p in zip(exprs, built):
        if "pattern" not in p or "tree" not in p.get("parsed", {}):
            rep.ob(f"{e}|constructs", "failed", "cpython", 0, kind="finite")
            rep.violation(f"{e}|constructs", {"expr": e, "result": p}, {"kind": "expr", "expr": e})
            continue
        ext = "True" in e
        v4 = e.startswith("IPv4")
        spec = ipaddr.ipv4(b) if v4 else ipaddr.ipv6(b)
        glue = glue4 if v4 else glue6
        if ext:
            lower = upper = R.cat(b.any_star, R.MARK, spec, R.MARK, b.any_star)
        else:
            # upper: never matched when glued to a further digit / dot (colon) on either side
            upper = R.cat(b.not_ending_in(glue), R.MARK, spec, R.MARK, b.not_starting_with(glue))
            # lower: matched whenever the neighbours are neither glue nor word characters (or the text ends there);
            # what happens next to a letter/underscore is the library's word-boundary design and is left open
            clean = R.cs_union(glue, W)
            lower = R.cat(b.not_ending_in(clean), R.MARK, spec, R.MARK, b.not_starting_with(clean))
        jobs.append(lang.Job(e, e, p["pattern"], p["parsed"]["tree"], lower, upper, U))
    xc = lang.decide(rep, jobs, timeout=120 if tier == "thorough" else 60,
                     samples_per_job=400 if tier == "thorough" else 60)
    rep.finite.append({"what": "IPv4/IPv6 constructors over their whole parameter domain (is_extensible in {True, "
                               "False, default})", "evaluations": len(exprs), "distinct_nontrivial": 4,
                       "exhaustive": True, "rule": "distinct (class, is_extensible) pairs"})
    rep.extra["translator_crosscheck"] = xc
    rep.extra["exhaustive"] = True
    rep.functions["pregex.meta.essentials.IPv4.__init__"] = "postcondition on the emitted language, decided for all texts"
    rep.functions["pregex.meta.essentials.IPv6.__init__"] = "postcondition on the emitted language, decided for all texts"
    # differential validation of the SPEC grammar (not of pregex) against the ipaddress module
    sv = native("run_module", {"module": "pvc.bex_misc", "func": "validate_ip_spec", "args": {"n": 4000 if tier == "thorough" else 600}})
    rep.extra["spec_validation_vs_ipaddress"] = sv
    # differential validation of the regex semantics all language decisions (C15-C19) rest on: random patterns vs CPython
    from .. import raxioms
    n, per = (800, 80) if tier == "thorough" else (120, 40)
    v = raxioms.validate(rep, n, per)
    rep.bounded.append({"id": "RV", "function": "pvc/rx2smt.py (the regex semantics the language decisions rest on: R3, R4, R6, R7)",
                        "contract": "T(P) agrees with CPython re's verdict (a disagreement is a checker error, exit 3)",
                        "bound": f"{n} random patterns over the constructs the library emits x {per} sampled (context, candidate, context) triples",
                        "evaluations": v["cases"], "distinct_nontrivial": v["positive"], "rule": "triples on which re matches"})
    rep.trusted += ["R3 quantifiers", "R4 grouping", "R6 zero-width items", "R7 bracket expressions",
                    "rx2smt translator (cross-checked against CPython on sampled texts this run)",
                    "CPython re._parser as reader of the emitted pattern", "SMT solvers' regex theory",
                    "specs/ipaddr.py (RFC 4291 / dotted quad), validated against ipaddress on generated texts"]
    rep.assumptions += ["texts range over all code points except those that only the Unicode-aware \\d and \\s add "
                        "beyond [0-9] and ASCII whitespace (left unspecified by the property)",
                        "possible-match relation: leftmost/greedy preferences of finditer are not modelled; the "
                        "specification languages are unambiguous tokens in the non-extensible form"]
