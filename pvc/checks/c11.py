"""C11 - matching methods return exactly what re finds, compiled or not (DESIGN 8/C11).

Proved (wiring VCs): each method's result equals the R8 oracle term built from exactly (pattern text,
MULTILINE|DOTALL, text) on BOTH branches (`__compiled is None` or not), using the cache invariant of Inv; iterate_* and
get_* satisfy the same specification; compile(), get_compiled_pattern(True|False) and purge() preserve Inv and write
nothing but the cache, so by induction the results do not depend on any interleaving of those calls."""
from .. import vcrun
from . import _g5, _b4

LEVEL = "proof"


def run(rep, tier):
    vcrun.run_functions(rep, _g5.MATCHING + _g5.CACHE + _g5.FILES, tier)
    for q in _g5.MATCHING:
        vcrun.run_bounded(rep, q, tier, "run-time evaluation of the proved contract on the real code (cross-check of the "
                                       "contract and of the R8 model; not counted as proof)", limit=600 if tier == "quick" else 20000)
    _b4.decide(rep)      # F6: __repr__ decided unit by unit over all code points (complete modulo the reviewed body form)
    _b4.run(rep, tier)   # compile() / get_compiled_pattern() compile the EXPORTED text: __repr__'s contract is assumed in the VCs
    rep.trusted += _g5.R8 + ["contract of Pregex.__repr__ (exported text compiles to the same regex) as used by the VCs: decided by F6 (unit-wise; body form compared each run), end to end by B4"]
    rep.assumptions += ["what re finds is uninterpreted: the claim is that pregex passes exactly (pattern, flags, text) to re "
                        "and returns re's answer through the documented accessors"]
