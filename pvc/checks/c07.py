"""C07 - class union, subtraction and negation are exact set algebra (DESIGN 8/C07).

B2/B3 (bounded, labelled): A | B, A - B, ~A, ~~A, negated-class algebra and nested expressions over a pool of classes
with adjacent / overlapping / nested ranges and metacharacter members, compared with python set algebra over the
interesting code points, EmptyClassException iff nothing is left, under several hash seeds.
The interval core (reduce_ranges, reduce_chars, subtract_ranges) is additionally under contract (VCs with loop
invariants over lists-as-maps) where the verifier can process the current source; see the evidence."""
from . import _cls

LEVEL = "exploration"


def run(rep, tier):
    _cls.run_named(rep)
    _cls.run_bounded(rep, tier, "algebra", "B3",
                     "S(A|B) = S(A) u S(B); S(A-B) = S(A) \\ S(B) and EmptyClassException iff empty; S(~A) = U \\ S(A), ~~A = A; "
                     "negated classes: the same on the excluded sets; results compile")
    rep.trusted += ["R7 bracket expressions"]
    rep.assumptions += ["code points that only the Unicode-aware shorthands add are left unspecified (masked)"]
