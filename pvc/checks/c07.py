"""C07 - class union, subtraction and negation are exact set algebra (DESIGN 8/C07).

B2/B3 (bounded, labelled): A | B, A - B, ~A, ~~A, negated-class algebra and nested expressions over a pool of classes
with adjacent / overlapping / nested ranges and metacharacter members, compared with python set algebra over the
interesting code points, EmptyClassException iff nothing is left, under several hash seeds.
The interval core (reduce_ranges, reduce_chars, subtract_ranges) is additionally under contract (VCs with loop
invariants over lists-as-maps) where the verifier can process the current source; see the evidence."""
from .. import vcrun
from . import _cls

LEVEL = "proof"
K = "pregex.core.classes.__Class."
INTERVAL = [K + "__or.<locals>.reduce_ranges", K + "__or.<locals>.reduce_chars", K + "__sub.<locals>.subtract_ranges",
            K + "__chars_to_ranges"]
# G9b: the operator methods relative to the assumed core operations: which operands reach __or / __sub, in which order, after
# the documented conversion of single characters / tokens to AnyFrom(c); the documented exception otherwise; ~ flips the flag
# and re-brackets the verbose text
OPERATORS = [K + m for m in ("__or__", "__ror__", "__sub__", "__rsub__", "__invert__")] + \
    ["pregex.core.classes." + m for m in ("Any.__invert__", "AnyWordChar.__invert__", "AnyButWordChar.__invert__",
                                          "AnyWordChar.__init__", "AnyButWordChar.__init__")]
# G8b: the core operations themselves, over abstract item sets: the listed set of the result is the union / difference of the
# operands' listed sets, EmptyClassException iff nothing is left, the type-mix and global-word exceptions iff documented -
# relative to the assumed contracts of the text layer (__extract_classes, __modify_classes, __process via __Class.__init__)
CORE = [K + "__or", K + "__sub"]


def run(rep, tier):
    # interval core: VCs with loop invariants over lists-as-maps, all list lengths, all code points
    vcrun.run_functions(rep, INTERVAL + OPERATORS + CORE, tier)
    rep.assumptions.append("G8b (__or, __sub) is relative to the assumed contracts of the text layer: __extract_classes(t, unescape=True) "
                           "returns well-formed unescaped ranges and characters that list exactly what t lists; __modify_classes(S, "
                           "escape=True) printed between brackets lists exactly what S denotes; __process keeps what the text lists "
                           "(all three bounded-checked end to end by B2/B3); python sets of class items are modelled by the set of "
                           "code points they denote")
    rep.assumptions.append("G9b (operator methods) relies on the class invariant that a Token-typed text stands for one character (B1)")
    for q in INTERVAL:
        vcrun.run_bounded(rep, q, tier, "run-time evaluation of the proved contract on the real nested function (cross-check; not "
                                       "counted as proof)", limit=1500 if tier == "quick" else 40000)
    _cls.run_named(rep)
    _cls.run_bounded(rep, tier, "algebra", "B3",
                     "S(A|B) = S(A) u S(B); S(A-B) = S(A) \\ S(B) and EmptyClassException iff empty; S(~A) = U \\ S(A), ~~A = A; "
                     "negated classes: the same on the excluded sets; results compile")
    rep.trusted += ["R7 bracket expressions", "E3 characters as code points, E6 lists as maps, E7 sets as lists in arbitrary order",
                    "assumed contract of __split_range ('a-z' -> ['a','z']); bounded-checked by B2/B3",
                    "z3 5.1 / 4.8 (quantified views: sets as predicates with triggers; equalities proved as two skolemised inclusions)"]
    rep.assumptions += ["code points that only the Unicode-aware shorthands add are left unspecified (masked)"]
