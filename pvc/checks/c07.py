"""C07 - class union, subtraction and negation are exact set algebra (DESIGN 8/C07).

B2/B3 (bounded, labelled): A | B, A - B, ~A, ~~A, negated-class algebra and nested expressions over a pool of classes
with adjacent / overlapping / nested ranges and metacharacter members, compared with python set algebra over the
interesting code points, EmptyClassException iff nothing is left, under several hash seeds.
The interval core (reduce_ranges, reduce_chars, subtract_ranges) is additionally under contract (VCs with loop
invariants over lists-as-maps) where the verifier can process the current source; see the evidence."""
from .. import vcrun
from . import _cls, _b1

LEVEL = "proof"
K = "pregex.core.classes.__Class."
INTERVAL = [K + "__or.<locals>.reduce_ranges", K + "__or.<locals>.reduce_chars", K + "__sub.<locals>.subtract_ranges",
            K + "__chars_to_ranges"]
# G9b: the operator methods relative to the assumed core operations: which operands reach __or / __sub, in which order, after
# the documented conversion of single characters / tokens to AnyFrom(c); the documented exception otherwise; ~ flips the flag
# and re-brackets the verbose text
OPERATORS = [K + m for m in ("__or__", "__ror__", "__sub__", "__rsub__", "__invert__")] + \
    ["pregex.core.classes." + m for m in ("Any.__invert__", "AnyWordChar.__invert__", "AnyButWordChar.__invert__",
                                          "AnyWordChar.__init__", "AnyButWordChar.__init__")]
# G8b: the core operations themselves, over abstract item sets: the listed set of the result is the union / difference of the
# operands' listed sets, EmptyClassException iff nothing is left, the type-mix and global-word exceptions iff documented -
# relative to the assumed contracts of the text layer (__extract_classes, __modify_classes, __process via __Class.__init__)
CORE = [K + "__or", K + "__sub"]


# F2 - three plain helpers of the text layer are decided COMPLETELY by data independence: their bodies (compared, without doc
# strings, with the reviewed forms every run) only count / split at '-', test membership in _to_escape, test lengths and copy
# characters (__split_range, __modify_classes: behaviour on an item is a function of WHICH of its characters are '-' / the six
# escapable ones; items are treated one at a time), or only test whether six particular items are in the set (__verbose_to_
# shorthand).  All item shapes over those characters plus two representatives of "any other character"
# are run on the real code (pvc/bex_misc.py).  If a body no longer has this form the decision is no longer complete: the runs
# still count as a bounded check and the obligation is listed as no longer proved (PROOF-LOST), not as a violation.
from contracts.f2_forms import FORMS as F2_FORMS
from ._groups import EXC


def f2(rep):
    import ast
    from .. import extract
    from ..common import native
    idx = extract.Index()

    def body_text(fi):
        def strip(n):
            for x in ast.walk(n):
                if isinstance(x, ast.FunctionDef):
                    x.body = [s for s in x.body if not (isinstance(s, ast.Expr) and isinstance(s.value, ast.Constant))]
            return n
        import copy
        body = [s for s in copy.deepcopy(fi.node).body if not (isinstance(s, ast.Expr) and isinstance(s.value, ast.Constant))]
        return "\n".join(ast.unparse(strip(s)) for s in body)
    toesc = native("build_patterns", {"exprs": ["AnyLetter()"]})      # keeps the native server warm; value unused
    for name, func in (("__split_range", "split_range_decision"), ("__modify_classes", "modify_classes_decision"),
                       ("__verbose_to_shorthand", "shorthand_decision")):
        fi = idx.func(K + name)
        same_form = body_text(fi) == F2_FORMS[name]
        r = native("run_module", {"module": "pvc.bex_misc", "func": func})
        for b in r["bad"][:5]:
            rep.violation(f"F2: {name}: {str(b)[:80]}", b, {"kind": "python", "code": "import pregex.core.classes as cl\n"
                          f"f = getattr(cl, '__Class')._Class{name}\nobserved = {('f(' + repr(b.get('item')) + ')') if name == '__split_range' else 'None'}\nviolated = True"},
                          witness=str(b.get("item", b.get("items"))))
        if r["bad"]:
            rep.ob(f"F2: {name} over all item shapes and singled-out characters", "failed", "cpython-exhaustive", 0, kind="finite")
        elif same_form:
            rep.ob(f"F2: {name} over all item shapes and singled-out characters ({r['cases']} cases; body has the data-independent form)",
                   "discharged", "cpython-exhaustive", 0, kind="finite")
        else:
            rep.ob(f"F2: {name}: the body no longer has the form the data-independence argument was made for; {r['cases']} cases run, none fails",
                   "unknown", "ast-scan", 0, kind="refinement-lost")
        rep.finite.append({"what": f"{name}: every item shape x every character the function singles out (+ 2 representatives of the others)",
                           "evaluations": r["cases"], "distinct_nontrivial": r["cases"], "exhaustive": bool(same_form),
                           "rule": "distinct items"})


def f3(rep):
    """F3 - __extract_classes / __separate_classes tokenise a NORMAL-FORM bracket body (any sequence of items; an item is a unit or
    unit '-' unit; a unit is a character other than the six escapable ones, or a backslash and one of those six) into exactly its
    items, ranges and characters apart.  Induction over the items, left to right (findall scans from the end of the previous
    match; the alternation tries range_pattern first); its side conditions are regular-language facts about the REAL range_pattern
    (read from the source each run) and are decided by the derivative engine:
      (a) every range item is in L(range_pattern);            (b) L(range_pattern) is prefix-free (so the match at a range item is it);
      (c) range_pattern matches no prefix of  <character item><items>*  (so at a character item the second alternative \\?. is used,
          which - greedy optional backslash, then any character - takes exactly that item);
      (d) no character item is in L(range_pattern) (the fullmatch that tells ranges from characters).
    Relative to R3 / R7 for the two regexes and to the forms of the two bodies (compared with contracts/f2_forms.py each run)."""
    import ast, copy
    from .. import extract, rx2smt as R, lang
    from ..common import native, CheckerError
    idx = extract.Index()

    def body_text(fi):
        def strip(n):
            for x in ast.walk(n):
                if isinstance(x, ast.FunctionDef):
                    x.body = [s for s in x.body if not (isinstance(s, ast.Expr) and isinstance(s.value, ast.Constant))]
            return n
        body = [s for s in copy.deepcopy(fi.node).body if not (isinstance(s, ast.Expr) and isinstance(s.value, ast.Constant))]
        return "\n".join(ast.unparse(strip(s)) for s in body)
    same = all(body_text(idx.func(K + n)) == F2_FORMS[n] for n in ("__separate_classes", "__extract_classes"))
    # the real range_pattern: the constant expression assigned in the body
    fi = idx.func(K + "__separate_classes")
    rp = None
    for st in fi.node.body:
        if isinstance(st, ast.Assign) and len(st.targets) == 1 and getattr(st.targets[0], "id", None) == "range_pattern":
            try:
                rp = ast.literal_eval(ast.unparse(st.value)) if False else eval(compile(ast.Expression(st.value), "<rp>", "eval"), {"__builtins__": {}})
            except Exception:
                rp = None
    if not isinstance(rp, str):
        rep.ob("F3: tokenisation lemma: range_pattern could not be read from the source", "unknown", "ast-scan", 0, kind="refinement-lost")
        return
    trees = native("parse", {"patterns": [rp]})
    if "tree" not in trees[0]:
        rep.ob("F3: tokenisation lemma: range_pattern does not parse", "failed", "cpython", 0, kind="lemma")
        rep.violation("F3: range_pattern of __separate_classes is not a valid regex", {"pattern": rp}, None, no_input=True)
        return
    U = ((0, R.MAXCP),)
    RP = R.plain(trees[0]["tree"], U)
    specials = R.cs_of("\\^[]-/")
    C = R.cs(R.cs_minus(U, specials))
    E = R.cat(R.cs(R.cs_of("\\")), R.cs(specials))
    UNIT = R.alt(C, E)
    DASH = R.cs(R.cs_of("-"))
    RANGEITEM = R.cat(UNIT, DASH, UNIT)
    ITEM = R.alt(UNIT, RANGEITEM)
    ANY = R.cs(U)
    facts = [
        ("(a) every range item matches range_pattern", RANGEITEM, RP),
        ("(b) range_pattern is prefix-free", R.conj(RP, R.cat(RP, ANY, R.star(ANY))), R.NONE),
        ("(c) range_pattern matches no prefix of a character item followed by items", R.conj(R.cat(RP, R.star(ANY)), R.cat(UNIT, R.star(ITEM))), R.NONE),
        ("(d) no character item matches range_pattern", R.conj(UNIT, RP), R.NONE),
    ]
    for name, A, B in facts:
        try:
            ok, cex, states = R.included(A, B, U)
        except CheckerError as e:
            rep.ob(f"F3 {name}", "unknown", "brz-derivative-product", 0, kind="lemma")
            continue
        if ok and same:
            rep.ob(f"F3 {name}", "discharged", "brz-derivative-product", 0, kind="lemma")
        elif ok:
            rep.ob(f"F3 {name}: holds, but the bodies no longer have the form the induction was written for", "unknown", "ast-scan", 0,
                   kind="refinement-lost")
        else:
            w = "".join(chr(c) for c in (cex or []))
            rep.ob(f"F3 {name}", "failed", "brz-derivative-product", 0, kind="lemma")
            rep.violation(f"F3 {name}", {"range_pattern": rp, "witness_text": w},
                          {"kind": "python", "code": f"import pregex.core.classes as cl\nobserved = getattr(cl, '__Class')._Class__separate_classes({w!r})\nviolated = True"},
                          witness=w)


def run(rep, tier):
    f2(rep)
    f3(rep)
    # interval core: VCs with loop invariants over lists-as-maps, all list lengths, all code points
    vcrun.run_functions(rep, INTERVAL + OPERATORS + CORE + EXC, tier)
    rep.assumptions.append("G8b (__or, __sub) is relative to the assumed contracts of the text layer: __extract_classes(t, unescape=True) "
                           "returns well-formed unescaped ranges and characters that list exactly what t lists; __modify_classes(S, "
                           "escape=True) printed between brackets lists exactly what S denotes; __process keeps what the text lists "
                           "(all three bounded-checked end to end by B2/B3); python sets of class items are modelled by the set of "
                           "code points they denote")
    rep.assumptions.append("G9b (operator methods) relies on the class invariant that a Token-typed text stands for one character (B1)")
    for q in INTERVAL:
        vcrun.run_bounded(rep, q, tier, "run-time evaluation of the proved contract on the real nested function (cross-check; not "
                                       "counted as proof)", limit=1500 if tier == "quick" else 40000)
    _b1.run(rep, tier, ["category", "total"], "G9b: a Token-typed operand of | / - is read as one character (class invariant, assumed in the VCs)")
    _cls.run_named(rep)
    _cls.run_bounded(rep, tier, "algebra", "B3",
                     "S(A|B) = S(A) u S(B); S(A-B) = S(A) \\ S(B) and EmptyClassException iff empty; S(~A) = U \\ S(A), ~~A = A; "
                     "negated classes: the same on the excluded sets; results compile")
    rep.trusted += ["R7 bracket expressions", "E3 characters as code points, E6 lists as maps, E7 sets as lists in arbitrary order",
                    "contracts of __split_range / __modify_classes / __verbose_to_shorthand as used by the VCs: decided completely by F2 (data independence; the body forms are compared each run)",
                    "assumed: __extract_classes tokenises a bracket text into its items; printing escaped items between brackets lists what they denote (R7); end to end: B2/B3",
                    "z3 5.1 / 4.8 (quantified views: sets as predicates with triggers; equalities proved as two skolemised inclusions)"]
    rep.assumptions += ["code points that only the Unicode-aware shorthands add are left unspecified (masked)"]
