"""C07 - class union, subtraction and negation are exact set algebra (DESIGN 8/C07).

B2/B3 (bounded, labelled): A | B, A - B, ~A, ~~A, negated-class algebra and nested expressions over a pool of classes
with adjacent / overlapping / nested ranges and metacharacter members, compared with python set algebra over the
interesting code points, EmptyClassException iff nothing is left, under several hash seeds.
The interval core (reduce_ranges, reduce_chars, subtract_ranges) is additionally under contract (VCs with loop
invariants over lists-as-maps) where the verifier can process the current source; see the evidence."""
from .. import vcrun
from . import _cls

LEVEL = "proof"
K = "pregex.core.classes.__Class."
INTERVAL = [K + "__or.<locals>.reduce_ranges", K + "__or.<locals>.reduce_chars", K + "__sub.<locals>.subtract_ranges",
            K + "__chars_to_ranges"]
# G9b: the operator methods relative to the assumed core operations: which operands reach __or / __sub, in which order, after
# the documented conversion of single characters / tokens to AnyFrom(c); the documented exception otherwise; ~ flips the flag
# and re-brackets the verbose text
OPERATORS = [K + m for m in ("__or__", "__ror__", "__sub__", "__rsub__", "__invert__")] + \
    ["pregex.core.classes." + m for m in ("Any.__invert__", "AnyWordChar.__invert__", "AnyButWordChar.__invert__",
                                          "AnyWordChar.__init__", "AnyButWordChar.__init__")]
# G8b: the core operations themselves, over abstract item sets: the listed set of the result is the union / difference of the
# operands' listed sets, EmptyClassException iff nothing is left, the type-mix and global-word exceptions iff documented -
# relative to the assumed contracts of the text layer (__extract_classes, __modify_classes, __process via __Class.__init__)
CORE = [K + "__or", K + "__sub"]


# F2 - three plain helpers of the text layer are decided COMPLETELY by data independence: their bodies (compared, without doc
# strings, with the reviewed forms every run) only count / split at '-', test membership in _to_escape, test lengths and copy
# characters (__split_range, __modify_classes: behaviour on an item is a function of WHICH of its characters are '-' / the six
# escapable ones; items are treated one at a time), or only test whether six particular items are in the set (__verbose_to_
# shorthand).  All item shapes over those characters plus two representatives of "any other character"
# are run on the real code (pvc/bex_misc.py).  If a body no longer has this form the decision is no longer complete: the runs
# still count as a bounded check and the obligation is listed as no longer proved (PROOF-LOST), not as a violation.
from contracts.f2_forms import FORMS as F2_FORMS


def f2(rep):
    import ast
    from .. import extract
    from ..common import native
    idx = extract.Index()

    def body_text(fi):
        def strip(n):
            for x in ast.walk(n):
                if isinstance(x, ast.FunctionDef):
                    x.body = [s for s in x.body if not (isinstance(s, ast.Expr) and isinstance(s.value, ast.Constant))]
            return n
        import copy
        body = [s for s in copy.deepcopy(fi.node).body if not (isinstance(s, ast.Expr) and isinstance(s.value, ast.Constant))]
        return "\n".join(ast.unparse(strip(s)) for s in body)
    toesc = native("build_patterns", {"exprs": ["AnyLetter()"]})      # keeps the native server warm; value unused
    for name, func in (("__split_range", "split_range_decision"), ("__modify_classes", "modify_classes_decision"),
                       ("__verbose_to_shorthand", "shorthand_decision")):
        fi = idx.func(K + name)
        same_form = body_text(fi) == F2_FORMS[name]
        r = native("run_module", {"module": "pvc.bex_misc", "func": func})
        for b in r["bad"][:5]:
            rep.violation(f"F2: {name}: {str(b)[:80]}", b, {"kind": "python", "code": "import pregex.core.classes as cl\n"
                          f"f = getattr(cl, '__Class')._Class{name}\nobserved = {('f(' + repr(b.get('item')) + ')') if name == '__split_range' else 'None'}\nviolated = True"},
                          witness=str(b.get("item", b.get("items"))))
        if r["bad"]:
            rep.ob(f"F2: {name} over all item shapes and singled-out characters", "failed", "cpython-exhaustive", 0, kind="finite")
        elif same_form:
            rep.ob(f"F2: {name} over all item shapes and singled-out characters ({r['cases']} cases; body has the data-independent form)",
                   "discharged", "cpython-exhaustive", 0, kind="finite")
        else:
            rep.ob(f"F2: {name}: the body no longer has the form the data-independence argument was made for; {r['cases']} cases run, none fails",
                   "unknown", "ast-scan", 0, kind="refinement-lost")
        rep.finite.append({"what": f"{name}: every item shape x every character the function singles out (+ 2 representatives of the others)",
                           "evaluations": r["cases"], "distinct_nontrivial": r["cases"], "exhaustive": bool(same_form),
                           "rule": "distinct items"})


def run(rep, tier):
    f2(rep)
    # interval core: VCs with loop invariants over lists-as-maps, all list lengths, all code points
    vcrun.run_functions(rep, INTERVAL + OPERATORS + CORE, tier)
    rep.assumptions.append("G8b (__or, __sub) is relative to the assumed contracts of the text layer: __extract_classes(t, unescape=True) "
                           "returns well-formed unescaped ranges and characters that list exactly what t lists; __modify_classes(S, "
                           "escape=True) printed between brackets lists exactly what S denotes; __process keeps what the text lists "
                           "(all three bounded-checked end to end by B2/B3); python sets of class items are modelled by the set of "
                           "code points they denote")
    rep.assumptions.append("G9b (operator methods) relies on the class invariant that a Token-typed text stands for one character (B1)")
    for q in INTERVAL:
        vcrun.run_bounded(rep, q, tier, "run-time evaluation of the proved contract on the real nested function (cross-check; not "
                                       "counted as proof)", limit=1500 if tier == "quick" else 40000)
    _cls.run_named(rep)
    _cls.run_bounded(rep, tier, "algebra", "B3",
                     "S(A|B) = S(A) u S(B); S(A-B) = S(A) \\ S(B) and EmptyClassException iff empty; S(~A) = U \\ S(A), ~~A = A; "
                     "negated classes: the same on the excluded sets; results compile")
    rep.trusted += ["R7 bracket expressions", "E3 characters as code points, E6 lists as maps, E7 sets as lists in arbitrary order",
                    "contracts of __split_range / __modify_classes / __verbose_to_shorthand as used by the VCs: decided completely by F2 (data independence; the body forms are compared each run)",
                    "assumed: __extract_classes tokenises a bracket text into its items; printing escaped items between brackets lists what they denote (R7); end to end: B2/B3",
                    "z3 5.1 / 4.8 (quantified views: sets as predicates with triggers; equalities proved as two skolemised inclusions)"]
    rep.assumptions += ["code points that only the Unicode-aware shorthands add are left unspecified (masked)"]
