"""C03 - every call yields a compilable, exportable pattern or a documented exception (DESIGN 8/C03).

Proved (VCs over every function under contract): every implicit-exception exit (TypeError, IndexError, KeyError,
AttributeError, ValueError from chr(), unpacking ...) is infeasible, and every `raise` is of a documented library class
under exactly the documented condition (combinators, class forms, matching API, class constructors and operators,
meta constructors) - over the tagged-argument domain (wrong type, bool for int, None, float, negative,
inverted, bad name, too few arguments are REGIONS of that domain); emitted texts parse whenever the operands' do (SAME_TREE
presupposes the emitted text parses).  Finite: every meta constructor over its flag domain compiles and exports.
Bounded: B1 (validity / termination of __infer_type on emitted texts), B4 (get_pattern round trip), B2 (class text
under hash seeds)."""
from .. import vcrun
from ..common import native, SEED
from . import _b1, _b4, _cls, _groups as GR, _g5

LEVEL = "proof"


def run(rep, tier):
    import contracts
    funcs = GR.COMBINATORS + _g5.MATCHING + _g5.CACHE + _g5.CAPTURES + _g5.CONTEXT + _g5.SPLIT + _g5.FILES
    # the class layer (G8b, G9, G9b) and the meta constructors (G10): the same totality obligations - no implicit exception,
    # every raise documented and under its documented condition - for all their arguments
    extra = [q for q, c in contracts.ALL.items()
             if (q.startswith("pregex.core.classes.") or q.startswith("pregex.meta.essentials."))
             and "<locals>" not in q and not q.startswith("new:") and not c.get("inline") and not c.get("assumed")
             and not c.get("bounded_only")]
    vcrun.run_functions(rep, funcs + extra, tier)
    r = native("run_module", {"module": "pvc.bex_misc", "func": "meta_constructors"}, timeout=1800)
    rep.finite.append({"what": "meta constructors (Text, Whitespace, NonWhitespace, Word*, Numeral x 15 bases, Integer/Decimal families on "
                               "sample ranges, Date x 48 formats, IPv4, IPv6, Email, HttpUrl) over their flag domains: construct or "
                               "documented exception, pattern compiles, get_pattern() round-trips",
                       "evaluations": r["evaluations"], "distinct_nontrivial": r["evaluations"], "exhaustive": True,
                       "rule": "distinct constructor calls (flag domains complete; integer parameters sampled)"})
    for f in r["failures"]:
        rep.violation("meta constructor: " + f["expr"], f, {"kind": "expr", "expr": f["expr"]}, witness=f["expr"])
    if not r["failures"]:
        rep.ob("meta constructors over their flag domains: construct / compile / export", "discharged", "cpython-exhaustive", 0, kind="finite")
    _b4.run(rep, tier)
    _b1.run(rep, tier, ["valid", "total"], "emitted texts are valid regexes; __infer_type terminates")
    _cls.run_bounded(rep, tier, "constructors", "B2", "class constructors: documented exception or a class text that compiles and "
                     "denotes the requested set, under every hash seed tried")
    rep.trusted += GR.TRUST + _g5.R8
    rep.assumptions += ["references to capture groups that the user never defined are excepted (property C03)",
                        "repetition bounds >= sre's MAXREPEAT (4294967295) make re raise OverflowError: outside the model (E1 treats "
                        "Python ints as unbounded; re does not)"]
