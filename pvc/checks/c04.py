"""C04 - quantifier bounds, greediness and spellings are exact (DESIGN 8/C04).

Proved by VCs over the real method bodies: for every inferred operand type, every kind of argument (int, bool, None,
float, str, other object) and ALL integers n, m: exceptions are raised iff documented, and the emitted text parses (by
CPython's own parser) to the same tree as the fully parenthesised reference (?:P){lo,hi}[?], integer leaves compared
by the solver.  Class forms (quantifiers.py) are proved textually equal to the method forms."""
from .. import vcrun
from . import _b1
from ._groups import EXC
from . import _f7

LEVEL = "proof"
P = "pregex.core.pre.Pregex."
FUNCS = [P + n for n in ("optional", "indefinite", "one_or_more", "exactly", "at_least", "at_most", "at_least_at_most",
                         "__mul__", "__rmul__", "_quantify_conditional_group", "__get_group_on_quantify_rule",
                         "_get_type", "_is_repeatable", "__str__", "group")]
# the class spellings (quantifiers.py): each proved to have the text of the method spelling, for all operands / bounds
FUNCS += ["pregex.core.quantifiers." + c + ".__init__" for c in ("Optional", "Indefinite", "OneOrMore", "Exactly", "AtLeast", "AtMost",
                                                                   "AtLeastAtMost")]


def run(rep, tier):
    vcrun.run_functions(rep, FUNCS + EXC, tier)
    # the quantifiers group the operand by its inferred category and raise CannotBeRepeatedException off its repeatable flag:
    # both VALUES are __infer_type's assumed contract
    _f7.decide_classes(rep)      # F8: every bracket text is typed Class (an atom for concatenation and repetition)
    _f7.decide(rep)      # F7: type and repeatable flag of EVERY literal string (regular-language facts about the real regexes)
    _b1.run(rep, tier, ["category", "flag", "total"], "category (is the operand an atom: (?:P) or P before the suffix) and repeatable flag "
            "of every emitted text (a wrongly refused operand has no repetitions at all)")
    rep.trusted += ["R2 compositionality (placeholders)", "R3 quantifiers", "R4 grouping",
                    "assumed contract of Pregex.__infer_type (class invariant Inv; bounded stand-in B1, see C02/C09)",
                    "CPython re._parser (non-optimising alternation parser swapped in) as reader of emitted text",
                    "VC generator pvc/symex.py + encoding E1-E12", "z3 5.1 (LIA/EUF); portfolio cvc5 1.0, z3 4.8 for unknowns"]
    rep.assumptions += ["repetition bounds below sre's MAXREPEAT (4294967295); larger bounds make re raise OverflowError",
                        "is_greedy is a bool (documented type; the code only tests its truth value)"]
