"""C17 - Numeral and Word patterns enforce alphabet, length and affix exactly (DESIGN 8/C17).

Per parameter tuple of a stated finite set the real constructor is executed and the emitted regex's language of possible
matches in every context is decided (all texts) against a reference language written from the documentation:
  Numeral(base, n_min, n_max): standalone strings of n_min..n_max digits of that base (letters in either case);
  Word(min, max): maximal runs of word characters of that length;
  WordContains / WordStartsWith / WordEndsWith(list): words that contain / start / end with one of the strings, literally.
Digit alphabets for all 15 bases are decided completely; argument validation on a bounded sample of invalid tuples."""
import random, re
from .. import lang, vcrun, rx2smt as R
from ..common import native, SEED
from specs.build import B
from ._groups import EXC
from . import _b1

LEVEL = "exploration"
DIGITS = "0123456789abcdef"


def esc(s):
    return "".join("\\" + c if c in "\\^$()[]{}?+*.|/" else c for c in s)


def q(mn, mx):
    return "{%d,%s}" % (mn, "" if mx is None else mx)


def run(rep, tier):
    U = lang.universe_default()
    b = B(U)
    W = R.cs_inter(R.categories()["w"], U)
    rnd = random.Random(SEED + 17)
    cases = []   # (expr, reference regex text | AST builder)
    bounds = [(1, None), (1, 1), (2, 3), (1, 4), (3, None), (2, 2)]
    for base in range(2, 17):
        alpha = DIGITS[:base] + DIGITS[10:base].upper()
        for (mn, mx) in (bounds if tier == "thorough" else rnd.sample(bounds, 2)):
            body = b.rep(b.chars(alpha), mn, mx)
            cases.append((f"Numeral({base}, {mn}, {mx})",
                          R.cat(b.not_ending_in(W), R.MARK, body, R.MARK, b.not_starting_with(W))))
            cases.append((f"Numeral({base}, {mn}, {mx}, is_extensible=True)", R.cat(b.any_star, R.MARK, body, R.MARK, b.any_star)))
    wordbounds = [(1, None), (1, 1), (2, 3), (3, None), (1, 5)]
    ascii_w = "ABCDEFGHIJKLMNOPQRSTUVWXYZabcdefghijklmnopqrstuvwxyz0123456789_"
    for (mn, mx) in wordbounds:
        for glob in (True, False):
            wc = b.set(W) if glob else b.chars(ascii_w)
            body = b.rep(wc, mn, mx)
            cases.append((f"Word({mn}, {mx}, is_global={glob})", R.cat(b.not_ending_in(W), R.MARK, body, R.MARK, b.not_starting_with(W))))
            cases.append((f"Word({mn}, {mx}, is_global={glob}, is_extensible=True)", R.cat(b.any_star, R.MARK, body, R.MARK, b.any_star)))
    affixes = [["ab"], ["a", "bc"], ["a.c"], ["x|y"], ["(", "z"], ["$"], ["ab", "a"], ["\\", "q"], ["a", "b", "cd"], ["[", "]x"], ["é"]]
    if tier == "quick":
        affixes = affixes[:4] + rnd.sample(affixes[4:], 3)
    refs = []
    for aff in affixes:
        alt_ = "(?:" + "|".join(esc(a) for a in aff) + ")"
        arg = repr(aff) if len(aff) > 1 else repr(aff[0])
        for ext in (False, True):
            l, r_ = ("", "") if ext else ("\\b", "\\b")
            e = ", is_extensible=True" if ext else ""
            refs.append((f"WordContains({arg}{e})", f"{l}\\w*{alt_}\\w*{r_}"))
            refs.append((f"WordStartsWith({arg}{e})", f"{l}{alt_}\\w*{r_}"))
            refs.append((f"WordEndsWith({arg}{e})", f"{l}\\w*{alt_}{r_}"))
    ref_trees = native("parse", {"patterns": [t for _, t in refs]})
    for (e, txt), tr in zip(refs, ref_trees):
        cases.append((e, R.T_language(tr["tree"], U)))
    built = lang.build([c[0] for c in cases])
    jobs = []
    for (e, T), p in zip(cases, built):
        if "pattern" not in p or "tree" not in p.get("parsed", {}):
            rep.violation(f"{e}|constructs", {"expr": e, "result": {k: v for k, v in p.items() if k != 'parsed'}}, {"kind": "expr", "expr": e})
            continue
        jobs.append(lang.Job(e, e, p["pattern"], p["parsed"]["tree"], T, T, U))
    xc = lang.decide(rep, jobs, timeout=30, samples_per_job=25 if tier == "quick" else 100)
    bad = [("Numeral(1)", "InvalidArgumentValueException"), ("Numeral(17)", "InvalidArgumentValueException"),
           ("Numeral('10')", "InvalidArgumentTypeException"), ("Numeral(10, -1)", "InvalidArgumentValueException"),
           ("Numeral(10, 3, 2)", "InvalidArgumentValueException"), ("Numeral(10, True)", "InvalidArgumentTypeException"),
           ("Numeral(10, 1, 2.5)", "InvalidArgumentTypeException"), ("Numeral(10, 1, -1)", "InvalidArgumentValueException"),
           ("Word(0)", "InvalidArgumentValueException"), ("Word(2, 1)", "InvalidArgumentValueException"), ("Word('1')", "InvalidArgumentTypeException"),
           ("Word(1, 0)", "InvalidArgumentValueException"), ("Word(1, 'x')", "InvalidArgumentTypeException"),
           ("WordContains(5)", "InvalidArgumentTypeException"), ("WordStartsWith(['a', 5])", "InvalidArgumentTypeException"),
           ("WordEndsWith(None)", "InvalidArgumentTypeException")]
    res = native("build_patterns", {"exprs": [e for e, _ in bad]})
    for (e, want), r in zip(bad, res):
        if r.get("exception") != want:
            rep.violation(f"{e}|raises {want}", {"expr": e, "observed": dict(r)}, {"kind": "expr", "expr": e}, witness=e)
    rep.bounded.append({"id": "B17", "function": "Numeral, Word, WordContains, WordStartsWith, WordEndsWith (essentials.py)",
                        "contract": "emitted language == documented reference language in every context; invalid parameters raise the "
                                    "documented exceptions",
                        "bound": f"{len(cases)} parameter tuples: all 15 bases x length bounds, word bounds x is_global x is_extensible, "
                                 f"{len(affixes)} affix lists incl. metacharacters; per tuple complete over all texts; {len(bad)} invalid tuples",
                        "evaluations": len(jobs) + len(bad), "distinct_nontrivial": len(jobs), "rule": "distinct constructor calls"})
    rep.extra["translator_crosscheck"] = xc
    # argument validation of the five constructors, for ALL integers / every argument kind (VCs; list arguments up to
    # length 2, their contents arbitrary)
    E = "pregex.meta.essentials."
    vcrun.run_functions(rep, [E + c + ".__init__" for c in ("Numeral", "Word", "WordContains", "WordStartsWith", "WordEndsWith")] + EXC, tier)
    # the chain clauses above rest on the combinators' contracts, which assume the class invariant (contract of __infer_type):
    # its stand-in runs here too (an affix / sign / format text that is mistyped breaks the composition)
    _b1.run(rep, tier, ["category", "total"], "syntactic category of every emitted text (the meta patterns are compositions)")
    rep.assumptions.append("validation VCs: list arguments (infix / prefix / suffix) are enumerated up to length 2 with arbitrary "
                           "contents; longer lists rest on the per-element loop being uniform")
    rep.trusted += ["R3, R4, R6, R7", "rx2smt translator (cross-checked against CPython each run)",
                    "z3 regex theory and the derivative-product procedure (must agree)", "reference regexes written from the documentation"]
    rep.assumptions += ["Unicode-only digits are excluded from the texts; \\w is CPython's Unicode word-character set on both sides"]
