P = "pregex.core.pre.Pregex."
MATCHING = [P + n for n in ("has_match", "is_exact_match", "iterate_matches", "get_matches", "iterate_matches_and_pos",
                            "get_matches_and_pos", "__iterate_match_objects")]
CACHE = [P + n for n in ("compile", "get_compiled_pattern", "purge", "get_pattern")]
CAPTURES = [P + pre + n for pre in ("iterate_", "get_") for n in ("captures", "captures_and_pos", "named_captures", "named_captures_and_pos")]
CONTEXT = [P + "iterate_matches_with_context", P + "get_matches_with_context"]
SPLIT = [P + "replace", P + "split_by_match", P + "split_by_capture"]
FILES = [P + "__extract_text"]
R8 = ["R8 re API (search/fullmatch/finditer/sub/compile and Match accessors), R5 group numbering: assumed contracts on the "
      "dependency `re` (pvc/remodel.py)", "B4 (assumed, bounded-checked): compiling get_pattern() is compiling the pattern",
      "VC generator pvc/symex.py + encoding E1-E12 (generators are eager: E9)", "z3 5.1 (EUF + LIA + recursive function unfolding)"]
