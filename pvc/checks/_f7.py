"""F7 - type inference of ESCAPED LITERALS, for every string (the part of __infer_type's contract that C01 / C09 / C04 quantify over
"all strings"):   for every python string s,  Pregex(s) has type Empty (s == ''), Token (one character) or Other (two or more), and is
repeatable.

Pregex.__init__ (proved, VC) stores what __infer_type returns on ESC(s); ESC is unit-wise (contract of __escape, decided over all code
points in C01): ESC(s) is a sequence of UNITS, one per character of s - the character itself if it is not in the escaped set M read
from the source of __escape, else a backslash and the character (backslash: two backslashes).

|s| >= 2.  The body of __infer_type is followed statement by statement (its form is compared with the reviewed one every run; the regex
constants are read from the source every run); each step's side condition is a regular-language fact about the REAL regex, decided by
the derivative engine (pvc/rx2smt.py: T_language gives the matches of a regex in context, look-behinds included):
  S1  re.sub(r1, 'a', W) maps W = ESC(s) unit by unit (two backslashes -> the replacement character, other units unchanged):
      in any context r1 matches two backslashes and nothing else, and it does match a unit of two backslashes wherever that unit
      stands in an escaped text; no other unit starts with two backslashes, and the character after an escaping backslash is not a
      backslash, so the left-to-right non-overlapping scan (R3) stays on unit boundaries.  The result is in
      L1 = UNIT1 UNIT1+, UNIT1 = (any character outside M and backslash) | backslash (a character of M).
  F1  no string of L1 fullmatches r2 (`\\\\?.`): the one-unit branch is not taken.
  F2  the class-simplifying regex has no match inside a string of L1: re.sub leaves the pattern as it is.
  F3  '[a]' is not in L1.                      F4  no string of L1 starts with '(': __is_group is False.
  F5  left_par has no match inside a string of L1: remove_groups returns its argument.
  F6  the alternation splitter has no match inside a string of L1: one piece, not an Alternation.
  F7-F9  no string of L1 fullmatches the anchor / boundary / quantifier regex.   Hence (Other, True).
|s| <= 1: all 1 112 064 one-character strings and '' are run on the real code.
If the body has another form the argument no longer applies: reported PROOF-LOST (exit 0), B1 remains."""
import ast, copy
from .. import extract, rx2smt as R
from ..common import native, CheckerError

P = "pregex.core.pre.Pregex."
EXPECTED_CALLS = ["findall", "sub", "sub", "fullmatch", "fullmatch", "fullmatch", "fullmatch", "sub", "match", "split", "fullmatch",
                  "fullmatch", "fullmatch"]


def body_text(fi):
    def strip(n):
        for x in ast.walk(n):
            if isinstance(x, ast.FunctionDef):
                x.body = [s for s in x.body if not (isinstance(s, ast.Expr) and isinstance(s.value, ast.Constant))]
        return n
    body = [s for s in copy.deepcopy(fi.node).body if not (isinstance(s, ast.Expr) and isinstance(s.value, ast.Constant))]
    return "\n".join(ast.unparse(strip(s)) for s in body)


class _Calls(ast.NodeVisitor):
    """the _re.<fn>(pattern, ...) calls of the body in source order, with the pattern expression evaluated (constants and the two
    local names left_par / right_par only)"""
    def __init__(self):
        self.env, self.calls = {}, []

    def visit_Assign(self, node):
        if len(node.targets) == 1 and isinstance(node.targets[0], ast.Tuple) and isinstance(node.value, ast.Tuple) and \
                all(isinstance(t, ast.Name) for t in node.targets[0].elts) and all(isinstance(v, ast.Constant) for v in node.value.elts):
            for t, v in zip(node.targets[0].elts, node.value.elts):
                self.env[t.id] = v.value
        self.generic_visit(node)

    def visit_Call(self, node):
        f = node.func
        if isinstance(f, ast.Attribute) and isinstance(f.value, ast.Name) and f.value.id == "_re":
            arg = node.args[0] if node.args else next((k.value for k in node.keywords if k.arg == "pattern"), None)
            repl = node.args[1] if len(node.args) > 1 else next((k.value for k in node.keywords if k.arg == "repl"), None)
            try:
                pat = eval(compile(ast.Expression(arg), "<rx>", "eval"), {"__builtins__": {}}, dict(self.env))
            except Exception:
                pat = None
            self.calls.append((f.attr, pat, repl.value if isinstance(repl, ast.Constant) else None))
        self.generic_visit(node)


def escaped_set(idx):
    """the characters __escape puts a backslash before: the set literal of its loop, plus the backslash of its first statement"""
    fi = idx.func(P + "__escape")
    for st in ast.walk(fi.node):
        if isinstance(st, ast.For) and isinstance(st.iter, ast.Set) and all(isinstance(e, ast.Constant) and isinstance(e.value, str)
                                                                           and len(e.value) == 1 for e in st.iter.elts):
            return "".join(sorted(e.value for e in st.iter.elts))
    return None


def _single_chunk(rng):
    from pregex.core.pre import Pregex
    bad = []
    for cp in range(*rng):
        if 0xD800 <= cp <= 0xDFFF:
            continue
        p = Pregex(chr(cp))
        if p._get_type().name != "Token" or not p._is_repeatable():
            bad.append(cp)
            if len(bad) > 3:
                break
    return bad


def single_units(workers=16):
    """run in the library's interpreter (pvc.native run_module)"""
    import multiprocessing
    from pregex.core.pre import Pregex
    step = 0x110000 // (workers * 4) + 1
    with multiprocessing.Pool(workers) as pool:
        bad = [b for r in pool.map(_single_chunk, [(a, min(a + step, 0x110000)) for a in range(0, 0x110000, step)]) for b in r]
    e = Pregex("")
    return {"bad": bad[:6], "empty_ok": e._get_type().name == "Empty" and e._is_repeatable(), "code_points": 0x110000 - 2048}


def literal_type(s):
    from pregex.core.pre import Pregex
    p = Pregex(s)
    want = ("Empty" if not s else "Token" if len(s) == 1 else "Other", True)
    got = (p._get_type().name, p._is_repeatable())
    return {"observed": [str(p), got[0], got[1]], "violated": got != want}


def decide(rep):
    from contracts.f2_forms import FORMS
    idx = extract.Index()
    fi = idx.func(P + "__infer_type")
    same_form = body_text(fi) == FORMS["__infer_type"] and body_text(idx.func(P + "__escape")) == FORMS["__escape"]
    v = _Calls()
    v.visit(fi.node)
    M = escaped_set(idx)
    lost = None
    if [c[0] for c in v.calls] != EXPECTED_CALLS or any(c[1] is None for c in v.calls) or M is None:
        lost = "the regex calls of __infer_type / the escaped set of __escape could not be read off the source in the reviewed order"
    # |s| <= 1 on the real code, whatever the form
    r = native("run_module", {"module": "pvc.checks._f7", "func": "single_units"}, timeout=1800)
    for cp in r["bad"][:3]:
        e = f"Pregex(chr({cp}))"
        rep.violation(f"F7: {e} (U+{cp:04X}) is not a repeatable Token", {"code_point": cp},
                      {"kind": "python", "code": f"p = {e}\nobserved = (str(p), p._get_type().name, p._is_repeatable())\n"
                                                 "violated = observed[1] != 'Token' or not observed[2]"}, witness=e)
    if not r["empty_ok"]:
        rep.violation("F7: Pregex('') is not the repeatable Empty pattern", {}, {"kind": "python", "code":
                      "p = Pregex('')\nobserved = (p._get_type().name, p._is_repeatable())\nviolated = observed != ('Empty', True)"}, witness="Pregex('')")
    rep.ob(f"F7: Pregex(c) is a repeatable Token for every code point c ({r['code_points']}); Pregex('') is Empty",
           "discharged" if not r["bad"] and r["empty_ok"] else "failed", "cpython-exhaustive", 0, kind="finite")
    rep.finite.append({"what": "type and repeatable flag of Pregex(c) for every one-character string, and of Pregex('')",
                       "evaluations": r["code_points"] + 1, "distinct_nontrivial": r["code_points"] + 1, "exhaustive": True,
                       "rule": "code points"})
    if lost:
        rep.ob("F7: type inference of escaped literals of two or more characters: " + lost, "unknown", "ast-scan", 0, kind="refinement-lost")
        return
    calls = v.calls
    roles = {"left_par": calls[0][1], "groups": calls[1][1], "r1": calls[2][1], "r2": calls[3][1], "classes": calls[7][1],
             "alternation": calls[9][1], "anchor": calls[10][1], "boundary": calls[11][1], "quantifier": calls[12][1]}
    repl1 = calls[2][2]
    trees = native("parse", {"patterns": list(roles.values())})
    if any("tree" not in t for t in trees):
        rep.ob("F7: a regex of __infer_type does not parse", "unknown", "cpython", 0, kind="refinement-lost")
        return
    T = {k: t["tree"] for k, t in zip(roles, trees)}
    U = ((0, R.MAXCP),)
    BS = R.cs_of("\\")
    Mset = R.cs_of(M)
    Nset = R.cs_minus(U, R.cs_union(Mset, BS))
    OM = R.opt(R.MARK)
    ANY = R.star(R.cs(U))
    unit1 = R.alt(R.cs(Nset), R.cat(R.cs(BS), R.cs(Mset)))
    L1 = R.cat(unit1, unit1, R.star(unit1))
    unit1m = R.alt(R.cat(R.cs(Nset), OM), R.cat(R.cs(BS), OM, R.cs(Mset), OM))
    L1m = R.cat(OM, unit1m, unit1m, R.star(unit1m))            # strings of L1 with markers anywhere

    def lit(s):
        return R.cat(*[R.cs(R.cs_of(c)) for c in s])

    def full(k):          # { t : the regex fullmatches t }, as #t#
        return R.conj(R.T_language(T[k], U), R.cat(R.MARK, L1, R.MARK))

    def inside(k):        # matches of the regex anywhere inside a string of L1
        return R.conj(R.T_language(T[k], U), L1m)
    unit0 = R.alt(R.cs(Nset), R.cat(R.cs(BS), R.cs(R.cs_union(Mset, BS))))      # the units of ESC(s), before the first substitution
    two_bs_anywhere = R.cat(ANY, R.MARK, R.cs(BS), R.cs(BS), R.MARK, ANY)
    two_bs_unit = R.cat(R.star(unit0), R.MARK, R.cs(BS), R.cs(BS), R.MARK, R.star(unit0))
    facts = [
        ("S1 in any context the first substitution's regex matches two backslashes and nothing else",
         R.conj(R.T_language(T["r1"], U), R.cat(ANY, R.MARK, ANY, R.MARK, ANY)), two_bs_anywhere, "r1"),
        ("S1' it matches a unit of two backslashes wherever that unit stands in an escaped text", two_bs_unit, R.T_language(T["r1"], U), "r1"),
        ("F1 no escaped literal of two or more units fullmatches the one-unit regex", full("r2"), R.NONE, "r2"),
        ("F2 the class-simplifying regex has no match inside an escaped literal", inside("classes"), R.NONE, "classes"),
        ("F3 '[a]' is not an escaped literal", R.conj(L1, lit("[a]")), R.NONE, None),
        ("F4 no escaped literal starts with '('", R.conj(L1, R.cat(lit("("), ANY)), R.NONE, None),
        ("F5 the group opener has no match inside an escaped literal", inside("left_par"), R.NONE, "left_par"),
        ("F6 the alternation splitter has no match inside an escaped literal", inside("alternation"), R.NONE, "alternation"),
        ("F7 no escaped literal fullmatches the anchor regex", full("anchor"), R.NONE, "anchor"),
        ("F8 no escaped literal fullmatches the boundary regex", full("boundary"), R.NONE, "boundary"),
        ("F9 no escaped literal fullmatches the quantifier regex", full("quantifier"), R.NONE, "quantifier"),
    ]
    # guard against vacuity: L1 and the match language of every regex used above are non-empty as translated
    covers = [("L1", L1)] + [(k, R.conj(R.T_language(T[k], U), R.cat(ANY, R.MARK, ANY, R.MARK, ANY))) for k in roles if k != "groups"]
    for k, A in covers:
        try:
            empty, _c, _s = R.included(A, R.NONE, U)
        except (CheckerError, R.Untranslatable):
            empty = True
        if empty:
            rep.ob(f"F7 cover: the language of {k} is empty as translated - the facts below would be vacuous", "unknown",
                   "brz-derivative-product", 0, kind="refinement-lost")
            return
    side = (repl1 is not None and len(repl1) == 1 and repl1 not in M and repl1 != "\\" and "\\" not in M)
    rep.ob("F7 S1'' the replacement character of the first substitution is an ordinary character; backslash is escaped by doubling",
           "discharged" if side and same_form else ("failed" if not side else "unknown"), "ast-scan", 0,
           kind="lemma" if side else "refinement-lost")
    for name, A, B, key in facts:
        try:
            ok, cex, states = R.included(A, B, U)
        except (CheckerError, R.Untranslatable) as e:
            rep.ob(f"F7 {name}", "unknown", "brz-derivative-product", 0, kind="refinement-lost")
            continue
        if ok and same_form:
            rep.ob(f"F7 {name}", "discharged", "brz-derivative-product", 0, kind="lemma")
        elif ok:
            rep.ob(f"F7 {name}: holds, but __infer_type / __escape no longer have the form the argument follows", "unknown", "ast-scan", 0,
                   kind="refinement-lost")
        else:
            # the fact fails: the argument no longer shows the property.  The witness is a marked string; whether the library
            # really mistypes a literal is decided on the real code with the witness stripped of its markers and un-escaped
            w = "".join(chr(c) for c in (cex or []) if c != R.MARKCP)
            s = unescape(w, M)
            code = (f"p = Pregex({s!r})\nobserved = (str(p), p._get_type().name, p._is_repeatable())\n"
                    f"violated = (observed[1], observed[2]) != ({'Empty' if not s else 'Token' if len(s) == 1 else 'Other'!r}, True)")
            res = native("run_module", {"module": "pvc.checks._f7", "func": "literal_type", "args": {"s": s}}) if s is not None else {"violated": False}
            if res.get("violated"):
                rep.ob(f"F7 {name}", "failed", "brz-derivative-product", 0, kind="lemma")
                rep.violation(f"F7 {name}", {"regex": roles.get(key), "witness_pattern": w, "literal": s, "observed": res.get("observed")},
                              {"kind": "python", "code": code}, witness=f"Pregex({s!r})")
            else:
                rep.ob(f"F7 {name}: the fact no longer holds (witness {w!r}) but the literal is typed as required: argument lost", "unknown",
                       "brz-derivative-product", 0, kind="refinement-lost")


def decide_classes(rep):
    """F8 - every BRACKET TEXT is typed (Class, repeatable): for every text  '[' BODY ']'  whose body is a non-empty sequence of units
    - a character other than backslash, '[' and ']', or a backslash and any character (the shape of every class text the library
    builds: G9 / __process escape exactly the brackets, the backslash and three more characters) - __infer_type returns (Class, True).
    Followed statement by statement like F7:  S1 as in F7 (the first substitution rewrites unit by unit: a backslash pair becomes the
    replacement character, so the body stays a sequence of units);  C1 no such text fullmatches the one-unit regex;  C2 every match
    of the class-simplifying regex that starts at position 0 of such a text ends at its end, and C2' the whole text is a match: so
    re.sub (leftmost match, R3) replaces the whole text by its replacement;  C3 that replacement is the constant the next statement
    compares with.  Same guards and the same PROOF-LOST rule as F7."""
    from contracts.f2_forms import FORMS
    idx = extract.Index()
    fi = idx.func(P + "__infer_type")
    same_form = body_text(fi) == FORMS["__infer_type"]
    v = _Calls()
    v.visit(fi.node)
    if [c[0] for c in v.calls] != EXPECTED_CALLS or any(c[1] is None for c in v.calls):
        rep.ob("F8: bracket texts are typed Class: the regex calls of __infer_type could not be read off the source in the reviewed order",
               "unknown", "ast-scan", 0, kind="refinement-lost")
        return
    calls = v.calls
    roles = {"r1": calls[2][1], "r2": calls[3][1], "classes": calls[7][1]}
    repl1, replc = calls[2][2], calls[7][2]
    trees = native("parse", {"patterns": list(roles.values())})
    if any("tree" not in t for t in trees):
        rep.ob("F8: a regex of __infer_type does not parse", "unknown", "cpython", 0, kind="refinement-lost")
        return
    T = {k: t["tree"] for k, t in zip(roles, trees)}
    U = ((0, R.MAXCP),)
    BS = R.cs_of("\\")
    X = R.cs_minus(U, R.cs_of("\\[]"))
    NB = R.cs_minus(U, BS)
    OM = R.opt(R.MARK)
    ANY = R.star(R.cs(U))
    unit = R.alt(R.cs(X), R.cat(R.cs(BS), R.cs(NB)))               # after S1: no backslash pair is left
    CL1 = R.cat(R.cs(R.cs_of("[")), unit, R.star(unit), R.cs(R.cs_of("]")))
    unitm = R.alt(R.cat(R.cs(X), OM), R.cat(R.cs(BS), OM, R.cs(NB), OM))
    CL1_from0 = R.cat(R.MARK, R.cs(R.cs_of("[")), OM, unitm, R.star(unitm), R.cs(R.cs_of("]")), OM)     # first marker at position 0
    whole = R.cat(R.MARK, CL1, R.MARK)
    unit0 = R.alt(R.cs(X), R.cat(R.cs(BS), R.cs(U)))                   # the units of a bracket body, before the first substitution
    two_bs_anywhere = R.cat(ANY, R.MARK, R.cs(BS), R.cs(BS), R.MARK, ANY)
    two_bs_unit = R.cat(R.cs(R.cs_of("[")), R.star(unit0), R.MARK, R.cs(BS), R.cs(BS), R.MARK, R.star(unit0), R.cs(R.cs_of("]")))
    TC = R.T_language(T["classes"], U)
    for k, A in (("CL1", CL1), ("r2", R.conj(R.T_language(T["r2"], U), R.cat(ANY, R.MARK, ANY, R.MARK, ANY))),
                 ("classes", R.conj(TC, R.cat(ANY, R.MARK, ANY, R.MARK, ANY)))):
        try:
            empty, _c, _s = R.included(A, R.NONE, U)
        except (CheckerError, R.Untranslatable):
            empty = True
        if empty:
            rep.ob(f"F8 cover: the language of {k} is empty as translated", "unknown", "brz-derivative-product", 0, kind="refinement-lost")
            return
    side = (repl1 is not None and len(repl1) == 1 and repl1 not in "\\[]" and replc == "[a]" and
            any(isinstance(n, ast.Compare) and isinstance(n.comparators[0], ast.Constant) and n.comparators[0].value == replc
                for n in ast.walk(fi.node)))
    facts = [
        ("S1 in any context the first substitution's regex matches two backslashes and nothing else",
         R.conj(R.T_language(T["r1"], U), R.cat(ANY, R.MARK, ANY, R.MARK, ANY)), two_bs_anywhere),
        ("S1' it matches a unit of two backslashes wherever that unit stands in a bracket body", two_bs_unit, R.T_language(T["r1"], U)),
        ("C1 no bracket text fullmatches the one-unit regex", R.conj(R.T_language(T["r2"], U), whole), R.NONE),
        ("C2 a match of the class-simplifying regex that starts a bracket text ends at its end", R.conj(TC, CL1_from0), whole),
        ("C2' the class-simplifying regex matches every bracket text as a whole", whole, TC),
    ]
    rep.ob("F8 C3 the class-simplifying substitution writes the constant the next statement compares with; the first substitution "
           "writes an ordinary character", "discharged" if side and same_form else ("failed" if not side else "unknown"), "ast-scan", 0,
           kind="lemma" if side else "refinement-lost")
    for name, A, B in facts:
        try:
            ok, cex, states = R.included(A, B, U)
        except (CheckerError, R.Untranslatable):
            rep.ob(f"F8 {name}", "unknown", "brz-derivative-product", 0, kind="refinement-lost")
            continue
        if ok and same_form:
            rep.ob(f"F8 {name}", "discharged", "brz-derivative-product", 0, kind="lemma")
        elif ok:
            rep.ob(f"F8 {name}: holds, but __infer_type no longer has the form the argument follows", "unknown", "ast-scan", 0,
                   kind="refinement-lost")
        else:
            w = "".join(chr(c) for c in (cex or []) if c != R.MARKCP)
            res = native("run_module", {"module": "pvc.checks._f7", "func": "text_type", "args": {"t": w}})
            if res.get("valid_class") and res.get("observed", [None, None])[0:2] != ["Class", True]:
                rep.ob(f"F8 {name}", "failed", "brz-derivative-product", 0, kind="lemma")
                code = (f"p = Pregex({w!r}, escape=False)\nobserved = (str(p), p._get_type().name, p._is_repeatable())\n"
                        "violated = (observed[1], observed[2]) != ('Class', True)")
                rep.violation(f"F8 {name}", {"witness_pattern": w, "observed": res.get("observed")}, {"kind": "python", "code": code},
                              witness=f"Pregex({w!r}, escape=False)")
            else:
                rep.ob(f"F8 {name}: the fact no longer holds (witness {w!r}) but no bracket text is shown mistyped: argument lost", "unknown",
                       "brz-derivative-product", 0, kind="refinement-lost")


def decide_empty(rep):
    """F9 - the inferred type is Empty IFF the text is empty, for EVERY text (the clause of __infer_type's contract that C05 leans on).
    Read off the body (compared with the reviewed form each run): the first executed statement rewrites the text with
    re.sub(r1, repl, text), the next one returns (Empty, True) iff the result is '', and no other statement mentions _Type.Empty.
    re.sub copies every character outside a match and writes repl for every match (R3): with a non-empty constant repl the result
    is empty iff the text is (a non-empty text has a character that is either copied or inside a match that is rewritten to repl)."""
    from contracts.f2_forms import FORMS
    idx = extract.Index()
    fi = idx.func(P + "__infer_type")
    same_form = body_text(fi) == FORMS["__infer_type"]
    body = [st for st in fi.node.body if not isinstance(st, ast.FunctionDef) and not (isinstance(st, ast.Expr) and isinstance(st.value, ast.Constant))]
    ok = False
    if len(body) >= 2 and isinstance(body[0], ast.Assign) and isinstance(body[0].value, ast.Call) and isinstance(body[1], ast.If):
        c = body[0].value
        is_sub = isinstance(c.func, ast.Attribute) and c.func.attr == "sub" and getattr(c.func.value, "id", None) == "_re" and \
            len(c.args) == 3 and isinstance(c.args[1], ast.Constant) and isinstance(c.args[1].value, str) and len(c.args[1].value) > 0 and \
            isinstance(c.args[2], ast.Name) and c.args[2].id == "pattern" and not c.keywords and \
            len(body[0].targets) == 1 and getattr(body[0].targets[0], "id", None) == "pattern"
        t = body[1].test
        is_test = isinstance(t, ast.Compare) and len(t.ops) == 1 and isinstance(t.ops[0], ast.Eq) and getattr(t.left, "id", None) == "pattern" and \
            isinstance(t.comparators[0], ast.Constant) and t.comparators[0].value == ""
        ret = body[1].body[0] if body[1].body else None
        is_ret = isinstance(ret, ast.Return) and ast.unparse(ret.value) == "(_Type.Empty, True)"
        others = sum(1 for n in ast.walk(fi.node) if isinstance(n, ast.Attribute) and n.attr == "Empty")
        ok = is_sub and is_test and is_ret and others == 1
    if ok and same_form:
        rep.ob("F9: __infer_type returns (Empty, True) iff the text is empty, for every text (first two statements; non-empty replacement)",
               "discharged", "ast-scan", 0, kind="lemma")
    else:
        rep.ob("F9: __infer_type no longer starts with `substitute; return Empty iff the result is empty`: argument lost", "unknown", "ast-scan", 0,
               kind="refinement-lost")


def text_type(t):
    """type of a raw pattern text on the real code; valid_class: the text is one bracket expression for re"""
    import re
    from pregex.core.pre import Pregex
    try:
        from pvc import native as N
        tree = N._parser()[0].parse(t, 24)
        valid = len(tree) == 1 and str(tree[0][0]) in ("IN", "LITERAL", "NOT_LITERAL") and t.startswith("[")
    except Exception:
        valid = False
    try:
        p = Pregex(t, escape=False)
        obs = [p._get_type().name, p._is_repeatable()]
    except RecursionError:
        obs = ["RecursionError", None]
    return {"observed": obs, "valid_class": valid}


def unescape(w, M):
    out, i = [], 0
    while i < len(w):
        if w[i] == "\\" and i + 1 < len(w):
            out.append(w[i + 1])
            i += 2
        elif w[i] == "\\":
            return None
        else:
            out.append(w[i])
            i += 1
    return "".join(out)
