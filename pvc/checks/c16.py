"""C16 - Decimal patterns constrain integer part and fraction length exactly (DESIGN 8/C16).

Bounded in the parameter tuples, complete in the text: for each tuple of the stated finite set the real constructor is
executed and the language of possible matches of the emitted regex in every context is decided against the
specification language 'integer part accepted by the corresponding Integer pattern (or none when start is 0) . fraction
of min..max digits' by regular-language inclusion in both directions.  Argument validation: bounded sample."""
import random
from .. import lang, vcrun, rx2smt as R
from ..common import native, SEED
from specs.build import B
from specs import numerals
from . import _b1

LEVEL = "exploration"


def frac(b, mn, mx):
    return b.rep(b.rng("09"), mn, mx)


def spec_T(b, W, kind, lo, hi, mn, mx, ext):
    canon = numerals.canonical(b, lo, hi)
    D = R.ASCII_D
    signs = R.cs_of("+-")
    F = frac(b, mn, mx)
    dot = b.lit(".")
    any_ = b.any_star
    right = any_ if ext else b.not_starting_with(W)
    alts = []
    if kind == "Decimal":
        left_i = b.ending_in(R.cs_minus(b.U, D)) if ext else b.not_ending_in(W)
        alts.append(R.cat(left_i, R.MARK, b.seq(canon, dot, F), R.MARK, right))
        if lo == 0:
            alts.append(R.cat(b.not_ending_in(D), R.MARK, b.seq(dot, F), R.MARK, right))
    elif kind == "UnsignedDecimal" and ext:
        # extensible: a preceding non-digit, non-sign character is required before the integer part; the form
        # without integer part must not follow a sign or a digit
        alts.append(R.cat(b.ending_in(R.cs_minus(b.U, R.cs_union(D, signs))), R.MARK, b.seq(canon, dot, F), R.MARK, right))
        if lo == 0:
            alts.append(R.cat(b.not_ending_in(R.cs_union(D, signs)), R.MARK, b.seq(dot, F), R.MARK, right))
    elif kind == "UnsignedDecimal":
        left_i = b.not_ending_in(R.cs_union(W, signs))
        alts.append(R.cat(left_i, R.MARK, b.seq(canon, dot, F), R.MARK, right))
        if lo == 0:
            # no integer part: the dot is neither glued to a word character nor to a sign
            alts.append(R.cat(b.not_ending_in(R.cs_union(W, signs)), R.MARK, b.seq(dot, F), R.MARK, right))
    elif kind == "PositiveDecimal":
        if ext:
            return None
        # the sign rule of PositiveInteger: an explicit '+' (not glued to a word character), or no sign at all in front
        left, left_nosign = b.not_ending_in(W), b.not_ending_in(R.cs_union(W, signs))
        alts.append(R.cat(left, R.MARK, b.seq(b.lit("+"), canon, dot, F), R.MARK, right))
        alts.append(R.cat(left_nosign, R.MARK, b.seq(canon, dot, F), R.MARK, right))
        if lo == 0:
            alts.append(R.cat(left, R.MARK, b.seq(b.lit("+"), dot, F), R.MARK, right))
            alts.append(R.cat(left_nosign, R.MARK, b.seq(dot, F), R.MARK, right))
    elif kind == "NegativeDecimal":
        if ext:
            return None
        left = b.not_ending_in(W)
        alts.append(R.cat(left, R.MARK, b.seq(b.lit("-"), canon, dot, F), R.MARK, right))
        if lo == 0:
            alts.append(R.cat(left, R.MARK, b.seq(b.lit("-"), dot, F), R.MARK, right))
    else:
        return None
    return R.alt(*alts)


def run(rep, tier):
    U = lang.universe_default()
    b = B(U)
    W = R.cs_inter(R.categories()["w"], U)
    rnd = random.Random(SEED + 16)
    ranges = [(0, 9), (0, 123), (5, 123), (1, 1000), (10, 99), (0, 0), (99, 100)]
    if tier == "thorough":
        ranges.append((0, 2147483647))
    fr = [(1, None), (1, 1), (2, 3), (1, 2), (3, None)]
    if tier == "thorough":
        ranges += [(a, z) for a in (0, 1, 9, 10, 19, 100, 199) for z in (9, 10, 99, 100, 109, 999, 1000) if a <= z]
        fr += [(2, 2), (1, 5), (4, 6)]
    cases = []
    for lo, hi in ranges:
        for mn, mx in (fr if tier == "thorough" else rnd.sample(fr, 2)):
            args = f"{lo}, {hi}, {mn}, {mx}"
            cases.append((f"Decimal({args})", "Decimal", lo, hi, mn, mx, False))
            cases.append((f"Decimal({args}, is_extensible=True)", "Decimal", lo, hi, mn, mx, True))
            cases.append((f"UnsignedDecimal({args})", "UnsignedDecimal", lo, hi, mn, mx, False))
            cases.append((f"UnsignedDecimal({args}, is_extensible=True)", "UnsignedDecimal", lo, hi, mn, mx, True))
            cases.append((f"NegativeDecimal({args})", "NegativeDecimal", lo, hi, mn, mx, False))
            cases.append((f"PositiveDecimal({args})", "PositiveDecimal", lo, hi, mn, mx, False))
    if tier == "quick":
        cases.append(("Decimal(0, 2147483647, 1, None)", "Decimal", 0, 2147483647, 1, None, False))
    built = lang.build([c[0] for c in cases])
    jobs = []
    for (e, kind, lo, hi, mn, mx, ext), p in zip(cases, built):
        if "pattern" not in p or "tree" not in p.get("parsed", {}):
            rep.violation(f"{e}|constructs", {"expr": e, "result": {k: v for k, v in p.items() if k != 'parsed'}}, {"kind": "expr", "expr": e})
            continue
        T = spec_T(b, W, kind, lo, hi, mn, mx, ext)
        if T is not None:
            jobs.append(lang.Job(e, e, p["pattern"], p["parsed"]["tree"], T, T, U))
    xc = lang.decide(rep, jobs, timeout=30, samples_per_job=25 if tier == "quick" else 100)
    # argument validation (bounded sample of invalid tuples)
    bad = [("Decimal(0, 5, 0)", "InvalidArgumentValueException"), ("Decimal(0, 5, 2, 1)", "InvalidArgumentValueException"),
           ("Decimal(0, 5, '1')", "InvalidArgumentTypeException"), ("Decimal(0, 5, True)", "InvalidArgumentTypeException"),
           ("Decimal(0, 5, 1, 2.0)", "InvalidArgumentTypeException"), ("Decimal(-1, 5)", "InvalidArgumentValueException"),
           ("Decimal(6, 5)", "InvalidArgumentValueException"), ("Decimal('0', 5)", "InvalidArgumentTypeException"),
           ("UnsignedDecimal(0, 5, 0)", "InvalidArgumentValueException"), ("NegativeDecimal(0, 5, 3, 2)", "InvalidArgumentValueException"),
           ("PositiveDecimal(0, 5, None)", "InvalidArgumentTypeException")]
    res = native("build_patterns", {"exprs": [e for e, _ in bad]})
    for (e, want), r in zip(bad, res):
        if r.get("exception") != want:
            rep.violation(f"{e}|raises {want}", {"expr": e, "observed": {k: v for k, v in r.items()}}, {"kind": "expr", "expr": e}, witness=e)
    rep.bounded.append({"id": "B5d", "function": "pregex.meta.essentials.__Decimal and the Decimal classes end to end",
                        "contract": "integer part as the corresponding Integer pattern (or none when start is 0) . fraction of "
                                    "min_decimal..max_decimal digits, in every context; invalid bounds raise the documented exceptions",
                        "bound": f"{len(cases)} parameter tuples (ranges {ranges[:8]}..., fraction bounds {fr}); per tuple the decision "
                                 f"is complete over all texts; {len(bad)} invalid tuples",
                        "evaluations": len(jobs) + len(bad), "distinct_nontrivial": len(jobs),
                        "rule": "distinct (class, start, end, min, max, is_extensible) with a specification language"})
    rep.extra["translator_crosscheck"] = xc
    # argument validation of the template constructor, for ALL integers and every other argument kind (VCs)
    vcrun.run_functions(rep, ["pregex.meta.essentials." + c + ".__init__" for c in ("__Decimal", "Decimal", "PositiveDecimal", "NegativeDecimal", "UnsignedDecimal")], tier)
    # the chain clauses above rest on the combinators' contracts, which assume the class invariant (contract of __infer_type):
    # its stand-in runs here too (an affix / sign / format text that is mistyped breaks the composition)
    _b1.run(rep, tier, ["category", "total"], "syntactic category of every emitted text (the meta patterns are compositions)")
    rep.trusted += ["R3, R4, R6, R7", "rx2smt translator (cross-checked against CPython each run)", "z3 regex theory and the "
                    "derivative-product procedure (must agree)", "specs/numerals.py"]
    rep.assumptions += ["PositiveDecimal and Decimal(include_sign=True): their sign rules are not documented precisely enough to "
                        "write a specification language; only construction / validation is exercised",
                        "Unicode-only digits are excluded from the texts"]
