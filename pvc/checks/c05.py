"""C05 - the empty pattern is neutral in every construction (DESIGN 8/C05).

Proved: the Empty clauses of the contracts of every quantifier, operator, group, capture and look-around (methods and
class forms): `result is self` / result empty / later alternative dropped / positive look-around on an empty assertion
returns the match pattern / negative raises EmptyNegativeAssertionException - for arbitrary co-operands.  'At any
depth' follows because these are post-conditions of each step and Inv is preserved (induction on the expression)."""
from .. import vcrun
from . import _b1, _groups as GR
from . import _f7

LEVEL = "proof"


def run(rep, tier):
    vcrun.run_functions(rep, GR.COMBINATORS, tier)
    _f7.decide_empty(rep)      # F9: Empty type iff empty text, for every text
    _b1.run(rep, tier, ["empty", "total"], "Empty type iff empty text")
    rep.trusted += GR.TRUST
    rep.assumptions += ["Either with the empty pattern as FIRST alternative is excluded by the property"]
