"""C09 - only anchored / positive-look-around patterns are refused repetition.

Proved (VCs, all operand types, all argument kinds, all integers): every quantifier entry point raises
CannotBeRepeatedException iff the request can repeat (bound above one or unbounded), the operand is not empty and its
repeatable flag is False - and never consults the flag otherwise.  The VALUE of the flag is the class invariant's C09
line, i.e. the contract of __infer_type, which is only bounded-checked (B1): direct assertion results are flagged
non-repeatable, anchor-free patterns repeatable."""
from .. import vcrun
from . import _b1
from ._groups import EXC
from . import _f7

LEVEL = "proof"
P = "pregex.core.pre.Pregex."
FUNCS = [P + n for n in ("optional", "indefinite", "one_or_more", "exactly", "at_least", "at_most", "at_least_at_most",
                         "__mul__", "__rmul__", "_is_repeatable")]


def run(rep, tier):
    vcrun.run_functions(rep, FUNCS + EXC, tier)
    _f7.decide(rep)      # F7: type and repeatable flag of EVERY literal string (regular-language facts about the real regexes)
    _b1.run(rep, tier, ["flag", "total"], "repeatable flag of every emitted text")
    rep.trusted += ["assumed contract of Pregex.__infer_type for the VALUE of the repeatable flag: bounded stand-in B1 only",
                    "VC generator pvc/symex.py + encoding E1-E12", "z3 5.1"]
    rep.assumptions += ["the flag of an operand that contains an anchor but is not a direct assertion result is unspecified"]
