"""C12 - capture extraction is consistent with the source text and group identity (DESIGN 8/C12).

Proved: for each match the returned tuple / list / dict equals the specification built from group(i), span(i) of THE
SAME group i (resp. the group the name refers to), None / (None,-1,-1) for non-participants, offsets relative to the
match when requested, and include_empty=False removes exactly the captures equal to ''.  The positional variants are
loops with accumulators: inner-loop invariants `counter == K and groups == CAPPOS(match, K)` / NAMEDPOS."""
from .. import vcrun
from . import _g5

LEVEL = "proof"


def run(rep, tier):
    vcrun.run_functions(rep, _g5.CAPTURES + [_g5.P + "__iterate_match_objects"], tier)
    for q in _g5.CAPTURES:
        vcrun.run_bounded(rep, q, tier, "run-time evaluation of the proved contract on the real code (cross-check; not "
                                       "counted as proof)", limit=500 if tier == "quick" else 20000)
    rep.trusted += _g5.R8
