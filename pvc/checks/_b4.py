"""Shared driver of the B4 bounded stand-in (assumed contract of Pregex.__repr__ / get_pattern), see pvc/bex_export.py.
Every property whose VCs use that contract (compile / get_compiled_pattern compile the EXPORTED text) runs it."""
from ..common import native, SEED


def run(rep, tier):
    b4 = native("run_module", {"module": "pvc.bex_export", "func": "run", "args": {"tier": tier, "seed": SEED}}, timeout=3600)
    rep.bounded.append({"id": "B4", "function": "Pregex.__repr__ / get_pattern", "contract": "exported text is printable and compiles to "
                        "the same parse tree as the internal pattern; a compiled instance matches like an uncompiled one",
                        "bound": "literals / classes over 28 'nasty' characters (control, quotes, backslash runs, non-BMP, combining), pairs "
                                 "sampled, one DSL step", "evaluations": b4["evaluations"], "distinct_nontrivial": b4["evaluations"],
                        "rule": "distinct expressions"})
    for f in b4["failures"][:6]:
        rep.violation("B4: " + f["what"][:60] + ": " + f["expr"][:80], f, {"kind": "expr", "expr": f["expr"]}, witness=f["expr"])
