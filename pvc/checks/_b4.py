"""Shared driver of the B4 bounded stand-in (assumed contract of Pregex.__repr__ / get_pattern), see pvc/bex_export.py.
Every property whose VCs use that contract (compile / get_compiled_pattern compile the EXPORTED text) runs it."""
from ..common import native, SEED


def run(rep, tier):
    b4 = native("run_module", {"module": "pvc.bex_export", "func": "run", "args": {"tier": tier, "seed": SEED}}, timeout=3600)
    rep.bounded.append({"id": "B4", "function": "Pregex.__repr__ / get_pattern", "contract": "exported text is printable and compiles to "
                        "the same parse tree as the internal pattern; a compiled instance matches like an uncompiled one",
                        "bound": "literals / classes over 28 'nasty' characters (control, quotes, backslash runs, non-BMP, combining), pairs "
                                 "sampled, one DSL step", "evaluations": b4["evaluations"], "distinct_nontrivial": b4["evaluations"],
                        "rule": "distinct expressions"})
    for f in b4["failures"][:6]:
        rep.violation("B4: " + f["what"][:60] + ": " + f["expr"][:80], f, {"kind": "expr", "expr": f["expr"]}, witness=f["expr"])


def decide(rep):
    """F6 - the contract of __repr__ decided unit by unit (pvc/bex_misc.py export_decision): the body has the reviewed form (two
    re.sub calls with constant regexes around repr(..)[1:-1]: it tells characters apart only as backslash / quotes / printable
    ASCII / other printable / non-printable), the real function equals the unit-wise reference on every string up to a length over
    representatives of those classes (and on long backslash runs), and for EVERY code point the image of a unit parses, in every
    kind of context, to what the unit parses to."""
    import ast, copy
    from .. import extract
    from contracts.f2_forms import FORMS
    fi = extract.Index().func("pregex.core.pre.Pregex.__repr__")
    body = [s for s in copy.deepcopy(fi.node).body if not (isinstance(s, ast.Expr) and isinstance(s.value, ast.Constant))]
    same_form = "\n".join(ast.unparse(s) for s in body) == FORMS["__repr__"]
    r = native("run_module", {"module": "pvc.bex_misc", "func": "export_decision"}, timeout=3600)
    for b in r["word_bad"][:4]:
        e = "Pregex(%r, escape=False)" % b["pattern"]
        rep.violation("F6: exported text is not the unit-wise image: " + e[:70], b,
                      {"kind": "python", "code": f"import re\np = {e}\nq = {e}\nq.compile()\nt = str(p) + 'a\\n\\x85\\\\n\\'\"' + p.get_pattern()\n"
                       "observed = (p.get_pattern(), p.get_matches(t), q.get_matches(t))\n"
                       "def _c(x):\n    try:\n        return re.compile(x, re.M | re.S)\n    except re.error:\n        return None\n"
                       "a, b = _c(str(p)), _c(p.get_pattern())\n"
                       "violated = (a is None) != (b is None) or (a is not None and (a.findall(t) != b.findall(t) or not p.get_pattern().isprintable()))"},
                      witness=e)
    for b in r["unit_bad"][:4]:
        e = "Pregex(%r, escape=False)" % (b.get("context", "%s") % b["unit"])
        rep.violation("F6: " + b["what"] + ": " + e[:70], b, {"kind": "expr", "expr": e}, witness=e)
    what = (f"F6: __repr__ unit by unit: {r['words']} strings up to length {r['max_length']} over {len(r['alphabet'])} class "
            f"representatives equal the unit-wise reference; {r['unit_checks']} (unit, context) parses over every code point")
    if r["word_bad"] or r["unit_bad"]:
        rep.ob(what, "failed", "cpython-exhaustive", 0, kind="finite")
    elif same_form:
        rep.ob(what + " (body has the reviewed form)", "discharged", "cpython-exhaustive", 0, kind="finite")
    else:
        rep.ob("F6: __repr__: the body no longer has the form the unit-wise argument was made for; all runs agree", "unknown", "ast-scan", 0,
               kind="refinement-lost")
    rep.finite.append({"what": "Pregex.__repr__: real function vs unit-wise reference on all strings over the class representatives up to the "
                               "stated length; image of every unit (c, backslash+c) for every code point in 11 kinds of context",
                       "evaluations": r["words"] + r["unit_checks"], "distinct_nontrivial": r["words"] + r["unit_checks"],
                       "exhaustive": bool(same_form), "rule": "strings + (code point, unit, context) triples"})
