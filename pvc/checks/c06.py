"""C06 - class constructors denote exactly the requested character sets (DESIGN 8/C06).

G9 (proved, VCs over all arguments): AnyFrom / AnyButFrom / AnyBetween / AnyButBetween raise exactly the documented
exceptions and hand `[...]` / `[^...]` with the requested characters, each special one escaped, to __Class.__init__.
F4 (complete): AnyFrom(c) / AnyButFrom(c) for every code point c: the emitted pattern is the literal c / its negation.
F (complete): every zero-argument Any*/AnyBut* class and every token - membership of EVERY code point against the
documented set, complement law, ~A == AnyBut*.  B2 (bounded, labelled): the parametric constructors AnyFrom / AnyButFrom /
AnyBetween / AnyButBetween over the distinguished characters (bracket and regex metacharacters, letters, digits, control
characters, a non-ASCII letter), token instances as arguments, invalid arguments, under several hash seeds."""
from . import _cls
from .. import vcrun
from ._groups import EXC

G9 = ["pregex.core.classes." + c + ".__init__" for c in ("AnyBetween", "AnyButBetween", "AnyFrom", "AnyButFrom")] + \
     ["pregex.core.classes.__Class." + f for f in ("__chars_to_ranges", "__process", "__init__")]     # verbose text lists what the given text lists

LEVEL = "exploration"


def run(rep, tier):
    _cls.run_named(rep)
    _cls.run_bounded(rep, tier, "constructors", "B2",
                     "AnyFrom(c..) matches exactly the given characters, AnyBetween(a,b) exactly the code points a..b (negated "
                     "forms the complement); start >= end raises InvalidRangeException; the pattern compiles")
    # G9 (VCs, all arguments): the documented exceptions iff their conditions (single character / token, start < end by code
    # point, at least one character) and the exact bracket text handed to __Class.__init__ (every special character escaped)
    vcrun.run_functions(rep, G9 + EXC, tier)
    # G9's VCs (__process, __Class.__init__) use the assumed contracts of the text layer: their complete decisions F2 / F3 run here too
    from . import c07
    c07.f2(rep)
    c07.f3(rep)
    # the precondition of __process / __Class.__init__ on the SHAPE of the bracket text (only \\ ^ [ ] - / are escaped): G9's
    # post-conditions give it for the parametrised constructors; for the named classes it is read off every instance here
    from ..common import native
    cs = native("run_module", {"module": "pvc.bex_contract", "func": "classarg_shapes"})
    rep.ob(f"every named class ({cs['classes']} instances) hands __Class.__init__ a bracket text of the presupposed shape",
           "discharged" if not cs["bad"] else "failed", "cpython-exhaustive", 0, kind="finite")
    for b in cs["bad"]:
        rep.violation(f"class text of {b['class']} has an escape __process misreads", b, {"kind": "expr", "expr": b["class"] + "()"}, witness=b["class"] + "()")
    rep.assumptions.append("G9 pins the bracket text given to __Class.__init__; what __process / re make of that text is the "
                           "bounded part (B2) and the complete part over named classes (F)")
    # F4: single-character classes over ALL code points (the one-character collapse of __process and its escaping)
    f4 = native("run_module", {"module": "pvc.bex_misc", "func": "single_character_classes"}, timeout=1800)
    rep.ob(f"F4: AnyFrom(c) parses to the literal c and AnyButFrom(c) to 'not c' for every code point ({f4['code_points']})",
           "discharged" if not f4["bad"] else "failed", "cpython-exhaustive", 0, kind="finite")
    rep.finite.append({"what": "AnyFrom(c) / AnyButFrom(c) for every code point c: the emitted pattern is the literal c / its negation",
                       "evaluations": 2 * f4["code_points"], "distinct_nontrivial": 2 * f4["code_points"], "exhaustive": True,
                       "rule": "code points x {AnyFrom, AnyButFrom}"})
    for cp in f4["bad"][:3]:
        e = f"AnyFrom(chr({cp}))"
        rep.violation(f"F4: {e} is not the literal U+{cp:04X}", {"code_point": cp}, {"kind": "expr", "expr": e}, witness=e)
    # F5: the parametrised constructors over every pair of ASCII characters / end points (complete for ASCII arguments)
    f5 = native("run_module", {"module": "pvc.bex_classes", "func": "ascii_pairs"}, timeout=1800)
    rep.ob(f"F5: AnyBetween / AnyButBetween / AnyFrom / AnyButFrom for every pair of ASCII characters ({f5['evaluations']} constructor calls)",
           "discharged" if not f5["n_failures"] else "failed", "cpython-exhaustive", 0, kind="finite")
    rep.finite.append({"what": "the four parametrised constructors over every (ordered) pair of ASCII characters: requested set or documented "
                               "exception; membership over all code points below U+0250 and the distinguished ones",
                       "evaluations": f5["evaluations"], "distinct_nontrivial": f5["evaluations"], "exhaustive": True,
                       "rule": "constructor calls"})
    for f in f5["failures"][:5]:
        rep.violation("F5: " + str(f.get("expr", f))[:80], f, {"kind": "expr", "expr": f.get("expr", "")}, witness=str(f.get("expr", "")))
    rep.trusted += ["R7 bracket expressions", "specs/charsets.py (documented sets / Unicode blocks)"]
    rep.assumptions += ["code points that only the Unicode-aware shorthands \\d \\s \\w add are left unspecified (masked)",
                        "'for any characters at all' is sampled by the distinguished characters and their neighbours (bounded)"]
