"""C06 - class constructors denote exactly the requested character sets (DESIGN 8/C06).

F (complete): every zero-argument Any*/AnyBut* class and every token - membership of EVERY code point against the
documented set, complement law, ~A == AnyBut*.  B2 (bounded, labelled): the parametric constructors AnyFrom / AnyButFrom /
AnyBetween / AnyButBetween over the distinguished characters (bracket and regex metacharacters, letters, digits, control
characters, a non-ASCII letter), token instances as arguments, invalid arguments, under several hash seeds."""
from . import _cls

LEVEL = "exploration"


def run(rep, tier):
    _cls.run_named(rep)
    _cls.run_bounded(rep, tier, "constructors", "B2",
                     "AnyFrom(c..) matches exactly the given characters, AnyBetween(a,b) exactly the code points a..b (negated "
                     "forms the complement); start >= end raises InvalidRangeException; the pattern compiles")
    rep.trusted += ["R7 bracket expressions", "specs/charsets.py (documented sets / Unicode blocks)"]
    rep.assumptions += ["code points that only the Unicode-aware shorthands \\d \\s \\w add are left unspecified (masked)",
                        "'for any characters at all' is sampled by the distinguished characters and their neighbours (bounded)"]
