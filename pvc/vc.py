"""Verification-condition driver: one function under contract at a time.

For every combination of parameter kinds the contract declares (the tagged-argument domain of E2, enumerated) and
every leaf of the decision tree of the symbolic executor, the driver checks

  * a `raise C` exit: C is listed in the contract's `raises` and its condition holds (pc => cond_C);
  * a normal exit: no `raises` condition holds (pc => not cond_C for every C) and `ensures` holds;
  * an implicit exception (TypeError, IndexError, KeyError, ...): never allowed - the path must be infeasible;
  * obligations collected on the way (callee preconditions, loop invariants, variants);
  * cover: every `raises` clause and the normal exit are reached by a feasible path (vacuity guard);
  * frame: attribute stores only to the fields the contract's `frame` names.

Obligations are discharged by the in-process z3 first; what it leaves open goes to the SMT-LIB portfolio."""
import ast, os, time, z3
from .values import *
from .symex import (Engine, Path, Frame, PathEnd, ReturnExc, RaiseExc, Limitation, simplify_bool, LIB_EXC, SpecFunc)
from .common import CheckerError
from . import smt

_parse_cache = {}


def parse_expr(src):
    if src not in _parse_cache:
        _parse_cache[src] = ast.parse(src.strip(), mode="eval").body
    return _parse_cache[src]


def eval_spec(eng, spec, env, path, fi):
    """evaluate a contract clause (python expression source, or a python callable taking (eng, path, env))"""
    if callable(spec):
        return spec(eng, path, env)
    if isinstance(spec, bool):
        return spec
    node = parse_expr(spec)
    fr = Frame(None, dict(env), getattr(fi, "cls", None), None, env.get("self"))
    fr.module = eng.spec_module
    return eng.ev(node, fr, path)


class Result:
    def __init__(self, qualname):
        self.qualname = qualname
        self.obligations = []     # dict(name, status, backend, time_s, model?)
        self.paths = 0
        self.forks = 0
        self.covers = {}
        self.limitation = None
        self.source_hash = None

    def add(self, name, status, backend, dt, **kw):
        self.obligations.append(dict(name=name, status=status, backend=backend, time_s=dt, **kw))


_skc = [0]


def _sk_counter():
    _skc[0] += 1
    return _skc[0]


CROSS = {"every": int(os.environ.get("PVC_CROSS_EVERY", "0") or 0), "seen": 0, "stats": {}}
PORTFOLIO_CAP = 3
_portfolio = {"n": 0}


def discharge(pc, goal, timeout_ms=6000):
    """valid(pc => goal)?  returns (status, backend, seconds, model|None)"""
    t0 = time.time()
    if goal is True:
        return "discharged", "trivial", 0.0, None
    if is_sym(goal) and z3.is_and(goal):
        # conjunctive goals are discharged conjunct by conjunct (smaller quantified queries)
        tot, worst, bks = 0.0, None, []
        for ch in goal.children():
            st, bk, dt, model = discharge(pc, ch, timeout_ms)
            if os.environ.get("PVC_DEBUG_SLOW") and dt > 2:
                print(f"[slow conjunct {dt:.1f}s {st}] {str(ch)[:300]}", flush=True)
            tot += dt
            bks.append(bk)
            if st != "discharged":
                return st, bk, tot, model
        return "discharged", sorted(set(bks))[-1], tot, None
    if is_sym(goal):
        for c in pc:
            if goal.eq(c):
                return "discharged", "syntactic (the goal is an assumption of the path)", time.time() - t0, None
        if z3.is_quantifier(goal) and goal.is_forall():
            # forall x. L(x) == R(x)  is proved as two inclusions, each with x skolemised by hand
            body = goal.body()
            if z3.is_eq(body) and z3.is_bool(body.arg(0)) and goal.num_vars() >= 1:
                consts = [z3.Const(f"sk!{goal.var_name(i)}!{_sk_counter()}", goal.var_sort(i)) for i in range(goal.num_vars())]
                inst = z3.substitute_vars(body, *reversed(consts))
                l, r = inst.arg(0), inst.arg(1)
                tot, bks = 0.0, []
                for a, b in ((l, r), (r, l)):
                    st, bk, dt, model = discharge(list(pc) + [a], b, timeout_ms)
                    tot += dt
                    bks.append(bk)
                    if st != "discharged":
                        return st, bk, tot, model
                return "discharged", "+".join(sorted(set(bks))), tot, None
    s = z3.Solver()
    if _portfolio["n"] > PORTFOLIO_CAP:
        timeout_ms = min(timeout_ms, 3000)       # the function is evidently not verifying: short budget for the rest
    s.set("timeout", timeout_ms)
    for c in pc:
        s.add(c)
    s.add(z3.Not(goal) if not isinstance(goal, bool) else z3.BoolVal(not goal))
    from .symex import has_quantifier
    quantified = any(has_quantifier(a) for a in s.assertions())
    if quantified and _portfolio["n"] <= PORTFOLIO_CAP:
        # quantified query: the printed-and-re-parsed form first (see below), with a short budget
        try:
            ctx2 = z3.Context()
            s2 = z3.Solver(ctx=ctx2)
            s2.set("timeout", 2500)
            s2.add(z3.parse_smt2_string(s.to_smt2(), ctx=ctx2))
            if s2.check() == z3.unsat:
                return "discharged", "z3-5.1(api, re-parsed)", time.time() - t0, None
        except z3.Z3Exception:
            pass
    r = s.check()
    if r == z3.unknown and _portfolio["n"] <= PORTFOLIO_CAP:
        # quantifier instantiation is sensitive to the order / numbering of the terms the executor happened to build: the same
        # query, printed and parsed again into a fresh context, is very often decided in a second or two (measured: the merge
        # steps of reduce_ranges / __chars_to_ranges, 2 s instead of > 15 s).  Tried before the external portfolio.
        try:
            text = s.to_smt2()
            if os.environ.get("PVC_DUMP_SLOW"):
                open(f"/tmp/slowvc_{int(time.time()*1000)%1000000}.smt2", "w").write(text)
            for seed in (0, 7, 13):
                ctx2 = z3.Context()
                s2 = z3.Solver(ctx=ctx2)
                s2.set("timeout", timeout_ms)
                s2.set("random_seed", seed)
                s2.add(z3.parse_smt2_string(text, ctx=ctx2))
                r2 = s2.check()
                if r2 == z3.unsat:
                    return "discharged", f"z3-5.1(api, re-parsed, seed {seed})", time.time() - t0, None
                if r2 == z3.sat:
                    break
        except z3.Z3Exception:
            pass
    dt = time.time() - t0
    if os.environ.get("PVC_DUMP_SLOW") and dt > float(os.environ["PVC_DUMP_SLOW"]):
        open(f"/tmp/slowvc_{int(time.time()*1000)%1000000}.smt2", "w").write(s.to_smt2())
    if r == z3.unsat:
        if CROSS["every"]:
            # thorough tier: every n-th discharged obligation is re-decided by two independent solver builds on the SMT-LIB
            # text of the same query; a disagreement is a checker error, never a verdict
            CROSS["seen"] += 1
            if CROSS["seen"] % CROSS["every"] == 0:
                for b in ("z3-4.8", "cvc5-1.0"):
                    st2, out2, dt2 = smt.run_one(b, smt.write_query(s.to_smt2(), "cross"), 20)
                    CROSS["stats"][b + ":" + ("agree" if st2 == "unsat" else st2)] = CROSS["stats"].get(b + ":" + ("agree" if st2 == "unsat" else st2), 0) + 1
                    if st2 == "sat":
                        raise CheckerError(f"solver disagreement: z3 5.1 says unsat, {b} says sat on a discharged obligation")
        return "discharged", "z3-5.1(api)", dt, None
    if r == z3.sat:
        return "failed", "z3-5.1(api)", dt, s.model()
    # portfolio on the SMT-LIB text (budgets sized so that a busy machine does not flip a verdict).  A function whose
    # obligations keep coming back undecided (typically: they no longer hold and no solver can refute a quantified
    # formula) is not given the long budget again and again: after PORTFOLIO_CAP escalations the rest stay `unknown`.
    _portfolio["n"] += 1
    if _portfolio["n"] > PORTFOLIO_CAP:
        return "unknown", "z3-5.1(api): timeout; portfolio budget of this function used up", dt, None
    q = "(set-option :produce-models true)\n" + s.to_smt2()
    st, out, bk, dt2 = smt.run_parallel(q, "vc", timeout=40, order=["z3-4.8", "z3-5.1", "cvc5-1.0"])
    if st == "unsat":
        return "discharged", bk, dt + dt2, None
    if st == "sat":
        return "failed", bk, dt + dt2, out
    return "unknown", bk, dt + dt2, None


def verify_function(eng, qualname, contract, make_args, max_paths=4000, fork_slice=None):
    """make_args(eng, path, fork) -> env for one fork; forks = contract['forks'] (list of dicts)"""
    fi = eng.index.func(qualname)
    _portfolio["n"] = 0
    max_paths = contract.get("max_paths", max_paths)
    res = Result(qualname)
    res.source_hash = fi.source_hash
    raises = contract.get("raises", {})
    for e in list(raises) + ["normal"]:
        res.covers[e] = 0
    forks = contract["forks"](eng) if callable(contract.get("forks")) else contract.get("forks", [{}])
    allowed_frame = set(contract.get("frame", []))
    if fork_slice is not None:
        forks = list(forks)[fork_slice[0]::fork_slice[1]]      # this process takes every n-th argument-kind fork
    if True:
        for fork in forks:
            res.forks += 1
            eng.feas_cache = {}
            stack = [[]]
            while stack:
                decisions = stack.pop()
                path = Path(eng, decisions)
                outcome = None
                try:
                    env = make_args(eng, path, fork, fi, contract)
                    req = contract.get("requires")
                    if req:
                        path.assume(zterm(eng.truth(eval_spec(eng, req, env, path, fi), path)))
                        if not path.sat():
                            raise PathEnd("precondition unsatisfiable for this fork")
                    pre_env = dict(env)
                    pre_heap = {k: dict(v) for k, v in path.heap.items()}
                    nwrites = len(path.writes)
                    try:
                        val = eng.call_funcdef(fi.node, None, None, fi.cls, fi.module, fi, path, env=dict(env), qual=qualname)
                        outcome = ("return", val)
                    except RaiseExc as e:
                        outcome = ("raise", e)
                except PathEnd as pe:
                    outcome = ("end", pe.why)
                except Limitation as lim:
                    outcome = ("limit", str(lim))
                    if res.limitation is None:
                        res.limitation = str(lim)
                def post():
                    tag = fork_tag(fork)
                    # obligations collected on the way
                    for (nm, pc, goal, meta) in path.obligations:
                        st, bk, dt, model = discharge(pc, goal)
                        res.add(f"{qualname} [{tag}] {nm}", st, bk, dt, model=model_to_dict(model), kind=(meta or {}).get("kind", "inline"))
                    if outcome[0] in ("end", "limit"):
                        return
                    if outcome[0] == "raise":
                        e = outcome[1]
                        if not e.implicit and e.cls_name in contract.get("may_raise", ()):
                            # an exception the contract allows without stating its condition (it belongs to an assumed callee)
                            res.covers.setdefault(e.cls_name, 0)
                            res.covers[e.cls_name] += 1
                            return
                        if e.implicit or e.cls_name not in raises:
                            # must be infeasible: the obligation is  pc => False  (under the full path condition)
                            st, bk, dt, model = discharge(path.pc, False)
                            res.add(f"{qualname} [{tag}] no {e.cls_name}" + (f" ({e.info})" if e.info else ""), st,
                                    bk, dt, model=model_to_dict(model), kind="implicit-exception" if e.implicit else "undocumented-exception",
                                    fork=tag)
                            return
                        res.covers[e.cls_name] += 1
                        cond = eng.truth(eval_spec(eng, raises[e.cls_name], pre_env, path, fi), path)
                        st, bk, dt, model = discharge(path.pc, zterm(cond))
                        res.add(f"{qualname} [{tag}] raises {e.cls_name} only if specified", st, bk, dt,
                                model=model_to_dict(model), kind="raises", fork=tag)
                        return
                    # normal exit
                    res.covers["normal"] += 1
                    val = outcome[1]
                    args_ok = True
                    for exc, cnd in raises.items():
                        cond = eng.truth(eval_spec(eng, cnd, pre_env, path, fi), path)
                        st, bk, dt, model = discharge(path.pc, zterm(eng.not_(cond)))
                        res.add(f"{qualname} [{tag}] returns only if not ({exc} condition)", st, bk, dt,
                                model=model_to_dict(model), kind="raises-iff", fork=tag)
                        if st != "discharged":
                            args_ok = False
                            if model is not None and not isinstance(model, str):
                                # continue on the part of the path where the arguments are valid
                                pass
                    ens = contract.get("ensures")
                    if ens and not args_ok:
                        # the post-condition presupposes arguments that the contract says are rejected
                        conds_false = []
                        for exc, cnd in raises.items():
                            c2 = eng.truth(eval_spec(eng, cnd, pre_env, path, fi), path)
                            conds_false.append(zterm(eng.not_(c2)))
                        try:
                            path.assume(z3.And(*conds_false))
                            if path.sat():
                                args_ok = True
                        except PathEnd:
                            pass
                    if ens and args_ok:
                        env2 = dict(pre_env)
                        env2["result"] = val
                        env2["OLD"] = pre_heap
                        g = eng.truth(eval_spec(eng, ens, env2, path, fi), path)
                        st, bk, dt, model = discharge(path.pc, zterm(g))
                        res.add(f"{qualname} [{tag}] ensures", st, bk, dt, model=model_to_dict(model), kind="ensures",
                                fork=tag, detail=getattr(eng, "last_detail", None))
                        eng.last_detail = None
                    # frame
                    for (oid, field) in path.writes[nwrites:]:
                        owner = [k for k, v in pre_env.items() if isinstance(v, Obj) and v.oid == oid]
                        if owner and f"{owner[0]}.{field}" not in allowed_frame:
                            res.add(f"{qualname} [{tag}] frame: no store to {owner[0]}.{field}", "failed", "frame-scan", 0.0,
                                    kind="frame", fork=tag)
                res.paths += 1
                if res.paths > max_paths:
                    raise Limitation(f"more than {max_paths} paths")
                try:
                    post()
                except PathEnd:
                    pass
                except RaiseExc as e:
                    # a contract clause could not be evaluated: an operation it names raised (e.g. the chain of a text-of-chain
                    # clause is rejected by the library itself).  The clause does not hold.
                    res.add(f"{qualname} [{fork_tag(fork)}] ensures", "failed", "clause evaluation raised " + str(e.cls_name), 0.0,
                            kind="ensures", fork=fork_tag(fork), model=None)
                except Limitation as lim:
                    if res.limitation is None:
                        res.limitation = str(lim)
                # enumerate siblings: every decision taken on this run beyond the replayed prefix - in the code AND in
                # the evaluation of the contract clauses afterwards (a clause that branches on an argument the code
                # does not look at is a case split of the proof)
                for i in range(len(decisions), len(path.taken)):
                    d, n, _ = path.taken[i]
                    for alt in range(d + 1, n):
                        stack.append([t[0] for t in path.taken[:i]] + [alt])
    # covers (for a slice of the forks they are evaluated after the slices are merged: vcrun)
    for k, n in res.covers.items():
        if fork_slice is None and n == 0 and res.limitation is None and not contract.get("cover_optional", {}).get(k):
            res.add(f"{qualname} cover: {k} exit is reachable", "failed", "cover", 0.0, kind="cover")
    return res


def fork_tag(fork):
    return ",".join(f"{k}={v.name if hasattr(v, 'name') else v}" for k, v in fork.items())


def model_to_dict(m):
    if m is None:
        return None
    if isinstance(m, str):
        return {"raw": m[-600:]}
    out = {}
    try:
        for d in m.decls():
            if d.arity() == 0:
                out[d.name()] = str(m[d])
    except Exception:
        pass
    return out
