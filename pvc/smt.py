"""SMT portfolio: z3-new (5.1), /usr/bin/z3 (4.8), /usr/bin/cvc5 (1.0) on SMT-LIB text.

run(query) -> (status, model_text, backend, seconds);  status in {'unsat','sat','unknown'}.
'unsat' from any solver discharges; 'sat' from any solver is a counter-model (to be replayed by the caller).
Answers that contradict each other are a checker error (never a verdict)."""
import os, subprocess, tempfile, time, shutil, concurrent.futures as cf
from .common import CheckerError, VERIF

SOLVERS = {
    "z3-5.1": ["z3-new", "-smt2"],
    "cvc5-1.0": ["/usr/bin/cvc5", "--lang=smt2", "--strings-exp", "--produce-models"],
    "z3-4.8": ["/usr/bin/z3", "-smt2"],
}
DEFAULT_ORDER = ["z3-5.1", "cvc5-1.0", "z3-4.8"]

_work = None


def workdir():
    global _work
    if _work is None or not os.path.isdir(_work):
        w = os.path.join(VERIF, ".work", f"smt-{os.getpid()}")
        os.makedirs(w, exist_ok=True)
        _work = w
    return _work


def cleanup():
    global _work
    if _work and os.path.isdir(_work):
        shutil.rmtree(_work, ignore_errors=True)
    _work = None


def run_one(backend, path, timeout):
    cmd = list(SOLVERS[backend])
    if backend.startswith("z3"):
        cmd += [f"-T:{int(timeout)}", path]
    else:
        cmd += [f"--tlimit={int(timeout * 1000)}", path]
    t0 = time.time()
    try:
        p = subprocess.run(cmd, capture_output=True, text=True, timeout=timeout + 5)
        out = p.stdout.strip()
    except subprocess.TimeoutExpired:
        return "unknown", "timeout", time.time() - t0
    dt = time.time() - t0
    first = out.splitlines()[0].strip() if out else ""
    if first in ("sat", "unsat"):
        return first, out, dt
    return "unknown", (out + p.stderr)[-400:], dt


def write_query(query, name="q"):
    safe = "".join(ch if ch.isalnum() else "_" for ch in name)[:60]
    path = os.path.join(workdir(), f"{safe}-{abs(hash(query)) % 10**10}-{os.getpid()}.smt2")
    with open(path, "w") as f:
        f.write(query)
    return path


def run_parallel(query, name="q", timeout=45, order=None):
    """all solvers of the portfolio at once; the first definite answer wins (the others are left to their time limit)"""
    safe = "".join(ch if ch.isalnum() else "_" for ch in name)[:60]
    path = os.path.join(workdir(), f"{safe}-{abs(hash(query)) % 10**10}-{os.getpid()}.smt2")
    with open(path, "w") as f:
        f.write(query)
    t0 = time.time()
    answer = None
    with cf.ThreadPoolExecutor(max_workers=len(order or DEFAULT_ORDER)) as ex:
        futs = {ex.submit(run_one, b, path, timeout): b for b in (order or DEFAULT_ORDER)}
        for f in cf.as_completed(futs):
            st, out, dt = f.result()
            if st != "unknown" and answer is None:
                answer = (st, out, futs[f])
            elif st != "unknown" and answer is not None and st != answer[0]:
                raise CheckerError(f"solvers disagree on {name}: {answer[2]} says {answer[0]}, {futs[f]} says {st}")
    try:
        os.remove(path)
    except OSError:
        pass
    if answer is None:
        return "unknown", "", "none", time.time() - t0
    return answer[0], answer[1], answer[2], time.time() - t0


def run(query, name="q", timeout=20, order=None, agree=False):
    """Sequential portfolio (cheap queries return at once from the first solver)."""
    safe = "".join(ch if ch.isalnum() else "_" for ch in name)[:60]
    path = os.path.join(workdir(), f"{safe}-{abs(hash(query)) % 10**10}.smt2")
    with open(path, "w") as f:
        f.write(query)
    answers = []
    total = 0.0
    for b in (order or DEFAULT_ORDER):
        st, out, dt = run_one(b, path, timeout)
        total += dt
        if st != "unknown":
            answers.append((st, out, b))
            if not agree:
                break
    try:
        os.remove(path)
    except OSError:
        pass
    if not answers:
        return "unknown", "", "none", total
    if len({a[0] for a in answers}) > 1:
        raise CheckerError(f"solvers disagree on {name}: {[(a[2], a[0]) for a in answers]}")
    st, out, b = answers[0]
    if agree and len(answers) > 1:
        b = "+".join(a[2] for a in answers)
    return st, out, b, total


def run_many(queries, timeout=20, workers=16, order=None, agree=False):
    """queries: list of (name, text) -> dict name -> (status, out, backend, seconds), solved in parallel."""
    res = {}
    with cf.ThreadPoolExecutor(max_workers=workers) as ex:
        futs = {ex.submit(run, q, n, timeout, order, agree): n for n, q in queries}
        for f in cf.as_completed(futs):
            res[futs[f]] = f.result()
    return res


def model_string(out, var="s"):
    """extract the string value of `var` from (get-value) output"""
    import re as _re
    m = _re.search(r'\(\(' + var + r'\s+"((?:[^"]|"")*)"\)\)', out, _re.S)
    if not m:
        return None
    return m.group(1).replace('""', '"')
