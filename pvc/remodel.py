"""Symbolic model of the `re` API used by the matching methods (axioms R5 / R8 of DESIGN 4.1), as values for the
executor.  Everything about WHAT re finds is uninterpreted; only the documented relations between the accessors are
built in:

  finditer(pat, flags, text) = M[0..n)     with  0 <= start_k <= end_k <= len(text),  end_k <= start_{k+1},
  M[k].group(0) = text[start_k:end_k],  search(...) is not None  <=>  n > 0,
  M[k].groups() = (group(1) .. group(NG(pat))),  groupdict() = {name_j: group(idx_j)},  span(0) = (start, end),
  group(i) is None  <=>  span(i) == (-1, -1),  else  start_k <= s_i <= e_i <= end_k  and  group(i) = text[s_i:e_i],
  a compiled pattern's methods equal the module functions on (pattern, flags),  purge() has no observable effect.
"""
import z3
from .values import *
from .symex import Limitation, RaiseExc, CharV, simplify_bool, SetV

NMATCH = z3.Function("re_nmatch", StrS, IntS, StrS, IntS)
MSTART = z3.Function("re_mstart", StrS, IntS, StrS, IntS, IntS)
MEND = z3.Function("re_mend", StrS, IntS, StrS, IntS, IntS)
NGROUPS = z3.Function("re_ngroups", StrS, IntS)
NNAMED = z3.Function("re_nnamed", StrS, IntS)
GNAME = z3.Function("re_gname", StrS, IntS, StrS)
GINDEX = z3.Function("re_gindex", StrS, IntS, IntS)
GNONE = z3.Function("re_gnone", StrS, IntS, StrS, IntS, IntS, BoolS)
GS = z3.Function("re_gstart", StrS, IntS, StrS, IntS, IntS, IntS)
GE = z3.Function("re_gend", StrS, IntS, StrS, IntS, IntS, IntS)
FULLMATCH = z3.Function("re_fullmatch", StrS, IntS, StrS, BoolS)
SUB = z3.Function("re_sub", StrS, StrS, StrS, IntS, IntS, StrS)
READ = z3.Function("READ", StrS, StrS)
V_GROUPS = z3.Function("v_groups", StrS, IntS, StrS, IntS, V)
V_GDICT = z3.Function("v_groupdict", StrS, IntS, StrS, IntS, V)
V_GITEMS = z3.Function("v_groupdict_items", StrS, IntS, StrS, IntS, V)
EXPORT = z3.Function("EXPORT", StrS, StrS)


class OptStr:
    """Optional[str] result of Match.group(i)"""

    def __init__(self, none, s):
        self.none, self.s = none, s

    def box(self):
        return z3.If(self.none, V_NONE, V_STR(self.s))

    def __repr__(self):
        return f"<OptStr none={self.none} {self.s}>"


class MaybeMatch:
    """result of re.search / fullmatch / match: only its truth value / None-ness is used"""

    def __init__(self, cond):
        self.cond = cond


class CompiledV:
    def __init__(self, pat, flags, via_export=True):
        self.pat, self.flags, self.via_export = pat, flags, via_export

    def key(self):
        return ("compiled", str_key(self.pat) if is_strv(self.pat) else repr(self.pat), self.flags)

    # a compiled pattern's methods equal the module functions on (pattern, flags)   [R8]
    def m_search(self, eng, path, fr, text):
        return re_search(eng, path, self.pat, text, self.flags)

    def m_fullmatch(self, eng, path, fr, text):
        return re_fullmatch(eng, path, self.pat, text, self.flags)

    def m_finditer(self, eng, path, fr, text):
        return finditer(eng, path, self.pat, text, self.flags)

    def m_match(self, eng, path, fr, text):
        raise Limitation("Pattern.match is not part of the R8 model")


class Matches:
    """the sequence finditer(pat, flags, text)"""

    def __init__(self, pat, flags, text):
        self.pat, self.flags, self.text = str_term(pat), z3.IntVal(int(flags)) if not is_sym(flags) else flags, str_term(text)
        self.textv = text

    def n(self):
        return NMATCH(self.pat, self.flags, self.text)

    def args(self):
        return (self.pat, self.flags, self.text)


class MatchV:
    def __init__(self, M, k):
        self.M, self.k = M, k

    def start0(self):
        return MSTART(*self.M.args(), self.k)

    def end0(self):
        return MEND(*self.M.args(), self.k)

    def axioms(self):
        s, e = self.start0(), self.end0()
        n = z3.Length(self.M.text)
        ax = [s >= 0, s <= e, e <= n]
        # ordering with the neighbours
        a = self.M.args()
        ax.append(z3.Implies(self.k > 0, z3.And(MEND(*a, self.k - 1) <= s, MSTART(*a, self.k - 1) >= 0,
                                                MSTART(*a, self.k - 1) <= MEND(*a, self.k - 1))))
        ax.append(z3.Implies(self.k + 1 < self.M.n(), e <= MSTART(*a, self.k + 1)))
        return ax

    def group_axioms(self, i):
        a = self.M.args()
        none = GNONE(*a, self.k, i)
        gs, ge = GS(*a, self.k, i), GE(*a, self.k, i)
        return [z3.If(none, z3.And(gs == -1, ge == -1), z3.And(self.start0() <= gs, gs <= ge, ge <= self.end0()))]

    def m_group(self, eng, path, fr, i=0):
        if isinstance(i, int) and i == 0:
            for ax in self.axioms():
                path.assume(ax)
            return SStr([Atom(PYSLICE(self.M.text, self.start0(), self.end0()), "slice")])
        i = self.index_of(i)
        return self.group_value(path, i)

    def group_value(self, path, i):
        a = self.M.args()
        for ax in self.axioms() + self.group_axioms(i):
            path.assume(ax)
        return OptStr(GNONE(*a, self.k, i), PYSLICE(self.M.text, GS(*a, self.k, i), GE(*a, self.k, i)))

    def index_of(self, i):
        """group number for an int or for a name taken from groupdict()"""
        if is_intv(i):
            return zterm(i)
        if isinstance(i, SStr) and len(i.pieces) == 1 and not isinstance(i.pieces[0], str) and i.pieces[0].tag == "gname":
            return GINDEX(self.M.pat, i.pieces[0].info)
        raise Limitation("group referenced by an arbitrary name")

    def m_span(self, eng, path, fr, i=0):
        for ax in self.axioms():
            path.assume(ax)
        if isinstance(i, int) and i == 0:
            return (self.start0(), self.end0())
        i = self.index_of(i)
        a = self.M.args()
        for ax in self.group_axioms(i):
            path.assume(ax)
        # R5: span(0) is the match itself
        return (z3.If(i == 0, self.start0(), GS(*a, self.k, i)), z3.If(i == 0, self.end0(), GE(*a, self.k, i)))

    def m_start(self, eng, path, fr, i=0):
        return self.m_span(eng, path, fr, i)[0]

    def m_end(self, eng, path, fr, i=0):
        return self.m_span(eng, path, fr, i)[1]

    def m_groups(self, eng, path, fr):
        ng = NGROUPS(self.M.pat)
        path.assume(ng >= 0)
        seq = SymSeq(ng, lambda j: self.group_value(path, zterm(j) + 1), "groups")
        seq.vterm = V_GROUPS(*self.M.args(), self.k)
        return seq

    def m_groupdict(self, eng, path, fr):
        return GroupDict(self, path)


class GroupDict:
    def __init__(self, m, path):
        self.m = m
        nn = NNAMED(m.M.pat)
        path.assume(nn >= 0)
        self.n = nn

    def entry(self, path, j):
        j = zterm(j)
        pat = self.m.M.pat
        idx = GINDEX(pat, j)
        path.assume(z3.And(idx >= 1, idx <= NGROUPS(pat)))
        name = SStr([Atom(GNAME(pat, j), "gname", j)])
        return (name, self.m.group_value(path, idx))

    def m_items(self, eng, path, fr):
        seq = SymSeq(self.n, lambda j: self.entry(path, j), "groupdict.items")
        seq.vterm = V_GITEMS(*self.m.M.args(), self.m.k)
        return seq

    def box(self):
        return V_GDICT(*self.m.M.args(), self.m.k)


def finditer(eng, path, pat, text, flags):
    M = Matches(pat, flags, text)
    path.assume(M.n() >= 0)
    seq = SymSeq(M.n(), lambda k: MatchV(M, zterm(k)), "finditer")
    seq.M = M
    return seq


def re_search(eng, path, pat, text, flags):
    M = Matches(pat, flags, text)
    path.assume(M.n() >= 0)
    return MaybeMatch(M.n() > 0)          # R8: search finds something iff finditer is not empty


def re_fullmatch(eng, path, pat, text, flags):
    f = z3.IntVal(int(flags)) if not is_sym(flags) else flags
    return MaybeMatch(FULLMATCH(str_term(pat), f, str_term(text)))


def _flags(kwargs, args, pos):
    if "flags" in kwargs:
        return kwargs["flags"]
    if len(args) > pos:
        return args[pos]
    return 0


def ext_search(eng, path, args, kwargs):
    return re_search(eng, path, args[0], args[1], _flags(kwargs, args, 2))


def ext_fullmatch(eng, path, args, kwargs):
    pat = args[0]
    if isinstance(pat, str) and is_strv(args[1]) and not isinstance(args[1], str):
        from .strre import const_fullmatch
        return MaybeMatch(const_fullmatch(eng, path, pat, args[1], _flags(kwargs, args, 2)))
    return re_fullmatch(eng, path, pat, args[1], _flags(kwargs, args, 2))


def ext_match(eng, path, args, kwargs):
    pat = args[0]
    if isinstance(pat, str):
        from .strre import const_match
        return MaybeMatch(const_match(eng, path, pat, args[1], _flags(kwargs, args, 2)))
    raise Limitation("re.match with a non-constant pattern")


def ext_finditer(eng, path, args, kwargs):
    return finditer(eng, path, args[0], args[1], _flags(kwargs, args, 2))


def ext_sub(eng, path, args, kwargs):
    pat, repl, text = kwargs.get("pattern", args[0] if args else None), kwargs.get("repl", args[1] if len(args) > 1 else None), \
        kwargs.get("string", args[2] if len(args) > 2 else None)
    count = args[3] if len(args) > 3 else kwargs.get("count", 0)
    flags = kwargs.get("flags", args[4] if len(args) > 4 else 0)
    from .symex import Closure
    if isinstance(repl, Closure) and isinstance(pat, str) and is_strv(text):
        # a callable replacement: the result is some string (a function of pattern and text); nothing is claimed about it
        key = ("re.sub/callable", pat, str_key(text))
        if key not in path.memo:
            path.memo[key] = SStr([Atom(eng.fresh("resubf", StrS), "opq")])
        return path.memo[key]
    if isinstance(pat, str):
        from .strre import const_sub
        return const_sub(eng, path, pat, repl, text, count, flags)
    if not is_intv(count):
        raise RaiseExc("TypeError", implicit=True, info="re.sub count")
    f = z3.IntVal(int(flags)) if not is_sym(flags) else flags
    return SStr([Atom(SUB(str_term(pat), str_term(repl), str_term(text), zterm(count), f), "resub")])


def ext_purge(eng, path, args, kwargs):
    return None


def ext_open(eng, path, args, kwargs):
    from .symex import FileV
    f = kwargs.get("file", args[0] if args else None)
    mode = kwargs.get("mode", args[1] if len(args) > 1 else "r")
    enc = kwargs.get("encoding")
    fv = FileV(f)
    fv.mode, fv.encoding = mode, enc
    return fv


def read_file(eng, path, path_value, mode="r", encoding="utf-8"):
    if not is_strv(path_value):
        raise RaiseExc("TypeError", implicit=True, info="open() of a non-string path")
    fn = READ if (mode == "r" and encoding == "utf-8") else z3.Function(f"READ_{mode}_{encoding}", StrS, StrS)
    return SStr([Atom(fn(str_term(path_value)), "read")])


def install(eng):
    eng.externals["re.search"] = ext_search
    eng.externals["re.fullmatch"] = ext_fullmatch
    eng.externals["re.finditer"] = ext_finditer
    eng.externals["re.sub"] = ext_sub
    eng.externals["re.purge"] = ext_purge
    eng.externals["re.match"] = ext_match
