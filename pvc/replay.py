"""Replay a reported violation against the real code:   /venv/bin/python /verif/pvc/replay.py <replay.json>
(PYTHONPATH is set up here; $PVC_REPO selects the tree, default /repo).  Exit 1 if the violation reproduces,
0 if it does not, 2 if the replay file carries no executable input (no-failing-input-found)."""
import json, os, sys, re, warnings
warnings.simplefilter("ignore")
REPO = os.environ.get("PVC_REPO", "/repo")
sys.path.insert(0, os.path.join(REPO, "src"))
sys.path.insert(0, os.path.dirname(os.path.dirname(os.path.abspath(__file__))))


def main():
    d = json.load(open(sys.argv[1]))
    rp = d.get("replay")
    print("property:", d.get("property"), "obligation:", d.get("obligation"))
    if not rp:
        print("no executable input recorded; verifier output follows\n", json.dumps(d.get("detail"), indent=1)[:4000])
        return 2
    from pvc.native import pregex_ns
    ns = pregex_ns()
    kind = rp["kind"]
    if kind == "match_at":
        p = eval(rp["expr"], ns)
        u, v, w = rp["u"], rp["v"], rp["w"]
        rx = re.compile("(?:%s)(?=.{%d}\\Z)" % (str(p), len(w)), re.M | re.S)
        m = rx.match(u + v + w, len(u))
        got = bool(m) and m.end() == len(u) + len(v)
        print(f"{rp['expr']}: can match {v!r} at offset {len(u)} of {u+v+w!r}: {got}; specification says {rp['expect_match']}")
        if not u and not w:
            print("  is_exact_match:", p.is_exact_match(v))
        return 1 if got != rp["expect_match"] else 0
    if kind in ("contract", "contract_call"):
        from pvc import bex_contract
        import contracts
        if kind == "contract":
            r = bex_contract.replay(rp["qualname"], rp["arg_descs"])
            print("contract of", rp["qualname"], "->", r)
            return 1 if r.get("reproduced") else 0
        c = contracts.ALL[rp["qualname"]]
        args = {}
        for k, v in rp["args"].items():
            if v == "<new instance>":
                args[k] = bex_contract.NEW          # the constructor is replayed on a fresh instance
                continue
            val = eval(v, {**ns, "object": bex_contract.specrt.Witness})
            if c.get("params", {}).get(k) in ("absranges", "abschars") and isinstance(val, list):
                val = set(val)                      # sets of class items are printed as sorted lists
            args[k] = val
        r = bex_contract.check_call(rp["qualname"], contracts.ALL[rp["qualname"]], args)
        print("contract of", rp["qualname"], "on", rp["args"], "->", r)
        return 0 if r["ok"] else 1
    if kind == "python":
        loc = {}
        exec(rp["code"], ns, loc)
        ok = loc.get("violated")
        print("violated =", ok, "|", loc.get("observed"))
        return 1 if ok else 0
    if kind == "expr":
        try:
            print(rp["expr"], "->", repr(str(eval(rp["expr"], ns))))
        except BaseException as e:
            print(rp["expr"], "raised", type(e).__name__, e)
        return 1
    print("unknown replay kind", kind)
    return 2


if __name__ == "__main__":
    sys.exit(main())
