"""Spec-side reading of emitted pattern text (DESIGN 3.5).

A symbolic text is a list of pieces: constants, operand patterns PAT(p) / GRP(p) / ESC(s), decimal numerals DEC(n).
SAME_TREE(emitted, reference) holds iff, for every syntactic category the class invariant allows for each operand,
CPython's own parser (non-optimising alternation parser, flag-free groups transparent) produces the same tree for
both texts, with integer leaves equal under the path condition (compared by the SMT solver).

Placeholders are distinct negated private-use classes [^\\uE0xx] (one item each):
   ATOM  X        PIECE  X*  (a quantified unit)      BRANCH  XY       ALT  X|Y       EMPTY  ''
"""
import itertools, z3
from .values import *
from .common import native, native_fast, CheckerError

ATOM, PIECE, BRANCH, ALT, EMPTY = "ATOM", "PIECE", "BRANCH", "ALT", "EMPTY"

# categories the class invariant allows per inferred type (Inv, DESIGN section 5)
CATS_BY_TYPE = {
    "Empty": [EMPTY],
    "Class": [ATOM], "Token": [ATOM], "Group": [ATOM],
    "Quantifier": [PIECE, ATOM],
    "Other": [BRANCH, PIECE, ATOM],
    "Assertion": [BRANCH, PIECE, ATOM],
    "Alternation": [ALT, BRANCH, PIECE, ATOM],
}


class PH:
    """allocates placeholder items"""

    def __init__(self):
        self.n = 0
        self.meaning = {}

    def new(self, what):
        c = 0xE000 + self.n
        self.n += 1
        self.meaning[c] = what
        return "[^%s]" % chr(c)


def placeholder(ph, cat, what):
    if cat == EMPTY:
        return ""
    if cat == ATOM:
        return ph.new((what, 0))
    if cat == PIECE:
        return ph.new((what, 0)) + "*"
    if cat == BRANCH:
        return ph.new((what, 0)) + ph.new((what, 1))
    if cat == ALT:
        return ph.new((what, 0)) + "|" + ph.new((what, 1))
    raise CheckerError(cat)


def operand_atoms(*texts):
    """the distinct operand atoms (by object / string identity) and numeral atoms occurring in the texts"""
    ops, nums = {}, {}
    for t in texts:
        if isinstance(t, str):
            continue
        for p in t.pieces:
            if isinstance(p, str):
                continue
            if p.tag in ("pat", "grp"):
                ops.setdefault(("obj", p.info["oid"]), p.info)
            elif p.tag == "esc":
                ops.setdefault(("esc", p.info["key"]), p.info)
            elif p.tag == "dec":
                nums.setdefault(p.term.sexpr(), p.info)
            elif p.tag == "res":
                ops.setdefault(("res", p.info["key"]), p.info)
            elif p.tag == "name":
                ops.setdefault(("name", p.info["key"]), p.info)
            elif p.tag == "opq" and isinstance(p.info, dict) and "key" in p.info:
                # a raw (unescaped) argument string spliced into the pattern: rendered with an adversarial value
                ops.setdefault(("raw", p.info["key"]), p.info)
            else:
                raise CheckerError(f"piece {p!r} cannot be rendered for the regex parser")
    return ops, nums


def render(text, assign, numvals):
    if isinstance(text, str):
        return text
    out = []
    for p in text.pieces:
        if isinstance(p, str):
            out.append(p)
        elif p.tag == "pat":
            out.append(assign[("obj", p.info["oid"])])
        elif p.tag == "grp":
            inner = assign[("obj", p.info["oid"])]
            out.append(inner if p.info.get("type") in ("Group",) else "(?:" + inner + ")")
        elif p.tag == "esc":
            out.append(assign[("esc", p.info["key"])])
        elif p.tag == "res":
            out.append(assign[("res", p.info["key"])])
        elif p.tag == "name":
            out.append(assign[("name", p.info["key"])])
        elif p.tag == "opq":
            out.append(assign[("raw", p.info["key"])])
        elif p.tag == "dec":
            out.append(str(numvals[p.term.sexpr()]))
    return "".join(out)


def norm_tree(tree, val2term, ph):
    """JSON parse tree -> normalised nested tuples with symbolic integer leaves"""
    out = []
    for op, av in tree:
        if op == "NOT_LITERAL" and av in ph.meaning:
            out.append(("P",) + ph.meaning[av])
        elif op in ("MAX_REPEAT", "MIN_REPEAT"):
            lo, hi, body = av
            out.append(("REP", op == "MIN_REPEAT", num_leaf(lo, val2term), num_leaf(hi, val2term) if hi is not None else None,
                        norm_tree(body, val2term, ph)))
        elif op == "BRANCH":
            alts = []
            for b in av:
                nb = norm_tree(b, val2term, ph)
                if len(nb) == 1 and nb[0][0] == "ALT":
                    alts.extend(nb[0][1])
                else:
                    alts.append(nb)
            out.append(("ALT", tuple(alts)))
        elif op == "SUBPATTERN":
            g, af, df, body = av
            out.append(("GROUP", g, af, df, norm_tree(body, val2term, ph)))
        elif op in ("ASSERT", "ASSERT_NOT"):
            d, body = av
            out.append((op, d, norm_tree(body, val2term, ph)))
        elif op == "GROUPREF_EXISTS":
            g, yes, no = av
            out.append((op, g, norm_tree(yes, val2term, ph), norm_tree(no, val2term, ph) if no is not None else None))
        elif op == "IN":
            out.append((op, tuple(tuple(x) if isinstance(x, list) else x for x in map(_tuplify, av))))
        else:
            out.append((op, _tuplify(av)))
    return tuple(out)


def _tuplify(x):
    if isinstance(x, list):
        return tuple(_tuplify(y) for y in x)
    return x


def num_leaf(v, val2term):
    if v in val2term:
        return ("N", v)
    return v


def same(a, b, val2term, path, conds):
    """structural comparison of two normalised sequences; integer leaves produce equalities appended to conds.
    Returns False on a structural mismatch."""
    a = splice_trivial(a, val2term, path)
    b = splice_trivial(b, val2term, path)
    if len(a) != len(b):
        return False
    for x, y in zip(a, b):
        if x[0] != y[0]:
            return False
        if x[0] == "REP":
            _, lz1, lo1, hi1, b1 = x
            _, lz2, lo2, hi2, b2 = y
            if (hi1 is None) != (hi2 is None):
                return False
            conds.append(term_of(lo1, val2term) == term_of(lo2, val2term))
            if hi1 is not None:
                conds.append(term_of(hi1, val2term) == term_of(hi2, val2term))
            if lz1 != lz2:
                if hi1 is None:
                    return False
                conds.append(term_of(lo1, val2term) == term_of(hi1, val2term))
            if not same(b1, b2, val2term, path, conds):
                return False
        elif x[0] == "ALT":
            if len(x[1]) != len(y[1]):
                return False
            for p, q in zip(x[1], y[1]):
                if not same(p, q, val2term, path, conds):
                    return False
        elif x[0] == "GROUP":
            if x[1:4] != y[1:4] or not same(x[4], y[4], val2term, path, conds):
                return False
        elif x[0] in ("ASSERT", "ASSERT_NOT"):
            if x[1] != y[1] or not same(x[2], y[2], val2term, path, conds):
                return False
        elif x[0] == "GROUPREF_EXISTS":
            if x[1] != y[1] or not same(x[2], y[2], val2term, path, conds):
                return False
            if (x[3] is None) != (y[3] is None) or (x[3] is not None and not same(x[3], y[3], val2term, path, conds)):
                return False
        else:
            if x != y:
                return False
    return True


def term_of(leaf, val2term):
    if isinstance(leaf, tuple) and leaf[0] == "N":
        return val2term[leaf[1]]
    return z3.IntVal(leaf)


def splice_trivial(seq, val2term, path):
    """REP(1,1,X) is X and REP(0,0,X) is nothing when the path condition forces those bounds"""
    out = []
    for x in seq:
        if x[0] == "REP" and x[3] is not None:
            lo, hi = term_of(x[2], val2term), term_of(x[3], val2term)
            if path.implied(z3.And(lo == 1, hi == 1)):
                out.extend(splice_trivial(x[4], val2term, path))
                continue
            if path.implied(z3.And(lo == 0, hi == 0)):
                continue
        out.append(x)
    return tuple(out)


def pick_numerals(path, nums, avoid, extra=None):
    """a model of the path condition with pairwise distinct values for numerals that are not forced equal, away from
    the decimal constants that occur literally in the texts"""
    terms = list(nums.values())
    cons = [t >= 0 for t in terms]           # str(n) of a negative n would not be a numeral: obligation elsewhere
    cons += [t < 4000000000 for t in terms]
    soft = []
    for i in range(len(terms)):
        for j in range(i + 1, len(terms)):
            soft.append(terms[i] != terms[j])
        for c in avoid:
            soft.append(terms[i] != c)
        soft.append(terms[i] >= 2)
    if extra:
        soft = list(extra) + soft
    base = path.model(*cons)
    if base is None:
        return None
    chosen = list(cons)
    for s in soft:
        if path.sat(*(chosen + [s])):
            chosen.append(s)
    m = path.model(*chosen)
    vals = {}
    for k, t in nums.items():
        vals[k] = m.eval(t, model_completion=True).as_long()
    return vals


def expand(t):
    """inline the reference text of embedded results that are atomic by their contract (group() results)"""
    if isinstance(t, str):
        return t
    out = []
    for p in t.pieces:
        if not isinstance(p, str) and p.tag == "res" and p.info.get("atomic") and p.info.get("ref") is not None:
            out.append(expand(p.info["ref"]))
        else:
            out.append(p)
    return mkstr(*out)


def same_tree(eng, path, emitted, reference, cats=None):
    """z3 Bool / python bool: emitted and reference parse to the same tree for every allowed category assignment"""
    emitted, reference = expand(emitted), expand(reference)
    ops, nums = operand_atoms(emitted, reference)
    keys = list(ops)
    options = []
    for k in keys:
        info = ops[k]
        if k[0] == "obj":
            options.append(CATS_BY_TYPE[info["type"]] if not info.get("cats") else info["cats"])
        elif k[0] == "esc":
            options.append(info["cats"])
        elif k[0] == "res":
            options.append(info.get("cats", [ALT, BRANCH, PIECE, ATOM]))
        elif k[0] == "name":
            options.append(["NAME"])
        elif k[0] == "raw":
            options.append(["RAW"])
    consts = set()
    import re as _re
    for t in (emitted, reference):
        for p in ([t] if isinstance(t, str) else t.pieces):
            if isinstance(p, str):
                consts.update(int(x) for x in _re.findall(r"\d+", p) if len(x) < 10)
    models = []
    if nums:
        v1 = pick_numerals(path, nums, consts)
        if v1 is None:
            return True  # path condition unsatisfiable: nothing to show
        models.append(v1)
        terms = list(nums.values())
        v2 = pick_numerals(path, nums, consts | set(v1.values()), extra=[t != v1[k] for k, t in nums.items()])
        if v2 is not None and v2 != v1:
            models.append(v2)
    else:
        models.append({})
    conj = []
    details = []
    for combo in itertools.product(*options) if options else [()]:
        shapes = []
        for vals in models:
            ph = PH()
            assign = {}
            for k, cat in zip(keys, combo):
                if cat == "NAME":
                    assign[k] = "n%d_" % len(assign)
                elif cat == "RAW":
                    lc = ops[k].get("lenclass")
                    raw = {"str1": ".", "str2": "x|", None: "x|y."}[lc]
                    assign[k] = raw
                    # the escaped form of the SAME string, wherever ESC(s) occurs, is rendered consistently
                    esc_key = ("esc", repr((("atom", ops[k]["term_sexpr"]),))) if "term_sexpr" in ops[k] else None
                    for k2 in keys:
                        if k2[0] == "esc" and ops[k2].get("of_key") == k[1]:
                            assign[k2] = "".join("\\" + c if c in "\\^$()[]{}?+*.|/" else c for c in raw)
                elif k not in assign:
                    assign[k] = placeholder(ph, cat, k)
            e_txt = render(emitted, assign, vals)
            r_txt = render(reference, assign, vals)
            # references to groups the texts do not define themselves ((?(n)..), (?P=n), \N): both texts are read
            # behind the same prefix that defines them (property C03 excepts undefined references)
            import re as _re2
            need = []
            for t in (r_txt, e_txt):
                for m in _re2.finditer(r"\(\?\((\w+)\)|\(\?P=(\w+)\)", t):
                    nm = m.group(1) or m.group(2)
                    if not nm.isdigit() and ("(?P<%s>" % nm) not in r_txt and nm not in need:
                        need.append(nm)
            pre = "".join("(?P<%s>z)" % nm for nm in need)
            e_txt, r_txt = pre + e_txt, pre + r_txt
            res = native_parse([e_txt, r_txt])
            if "error" in res[1]:
                raise CheckerError(f"reference text does not parse: {r_txt!r}: {res[1]['error']}")
            if "error" in res[0]:
                eng.last_detail = {"emitted": e_txt, "reference": r_txt, "error": res[0]["error"],
                                   "categories": dict(zip(map(str, keys), combo))}
                return False
            val2term = {}
            for k, t in nums.items():
                val2term.setdefault(vals[k], t)
            te = norm_tree(res[0]["tree"], val2term, ph)
            tr = norm_tree(res[1]["tree"], val2term, ph)
            conds = []
            if not same(te, tr, val2term, path, conds) or res[0]["groups"] != res[1]["groups"] \
                    or res[0]["groupdict"] != res[1]["groupdict"]:
                eng.last_detail = {"emitted": e_txt, "reference": r_txt, "emitted_tree": repr(te)[:400],
                                   "reference_tree": repr(tr)[:400], "categories": dict(zip(map(str, keys), combo))}
                return False
            shapes.append((shape_of(te), shape_of(tr)))
            conj.extend(conds)
            details.append((e_txt, r_txt))
        if len(shapes) == 2 and shapes[0] != shapes[1]:
            raise CheckerError("tree shape depends on the numeral values; the placeholder argument does not apply")
    eng.last_detail = {"emitted~reference": details[:3]}
    if not conj:
        return True
    from .symex import simplify_bool
    return simplify_bool(z3.And(*conj))


def shape_of(t):
    if isinstance(t, tuple):
        if t and t[0] == "N":
            return "N"
        return tuple(shape_of(x) for x in t)
    if isinstance(t, int) and not isinstance(t, bool):
        return t
    return t


_cache = {}


def native_parse(texts):
    need = [t for t in texts if t not in _cache]
    if need:
        res = native_fast("parse_noopt", {"patterns": need})
        for t, r in zip(need, res):
            _cache[t] = r
    return [_cache[t] for t in texts]
