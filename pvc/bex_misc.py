"""Native helpers (run under /venv/bin/python via pvc.native run_module)."""
import random, re, ipaddress


def validate_ip_spec(n=600):
    """The spec grammar of specs/ipaddr.py, rendered as a Python regex, agrees with the ipaddress module on
    generated candidate strings (validation of the SPEC, reported, not counted as proof)."""
    h = "[0-9a-fA-F]{1,4}"
    alts = [f"{h}(?::{h}){{7}}"]
    for l in range(8):
        for r in range(8 - l):
            left = "" if l == 0 else f"{h}(?::{h}){{{l - 1}}}"
            right = "" if r == 0 else f"{h}(?::{h}){{{r - 1}}}"
            alts.append(left + "::" + right)
    v6 = re.compile("(?:" + "|".join(alts) + ")", re.A)
    octet = r"(?:\d|[1-9]\d|1\d\d|2[0-4]\d|25[0-5])"
    v4 = re.compile(octet + r"(?:\." + octet + "){3}", re.A)
    rnd = random.Random(12345)
    bad = []
    cnt = 0
    for _ in range(n):
        k = rnd.randint(0, 9)
        parts = [rnd.choice(["0", "1", "ab", "ffff", "12345", "g", "", "F0", "0db8"]) for _ in range(k)]
        t = ":".join(parts)
        if rnd.random() < 0.6:
            j = rnd.randint(0, len(t))
            t = t[:j] + "::" + t[j:]
            if rnd.random() < 0.7:
                t = t.replace(":::", "::")
        try:
            ipaddress.IPv6Address(t); ok = True
        except Exception:
            ok = False
        cnt += 1
        if bool(v6.fullmatch(t)) != ok:
            bad.append(t)
        q = ".".join(rnd.choice(["0", "1", "9", "10", "99", "100", "199", "200", "249", "250", "255", "256", "01", "300", "", "a"]) for _ in range(rnd.choice([3, 4, 4, 4, 5])))
        try:
            ipaddress.IPv4Address(q); ok = True
        except Exception:
            ok = False
        cnt += 1
        if bool(v4.fullmatch(q)) != ok:
            bad.append(q)
    if bad:
        raise AssertionError(f"spec grammar disagrees with ipaddress on {bad[:5]}")
    return {"candidates": cnt, "disagreements": 0}


def date_formats():
    from pregex.meta.essentials import Date
    return list(Date._Date__date_formats())


# ---------------------------------------------------------------------------------------------------------------
# G6: Pregex.__escape, exhaustively over single characters (E5: a 1-character replace is a character-wise map, so
# the composition of such maps is character-wise and is determined by its values on single characters)

META = "\\^$()[]{}?+*.|/"


def _esc_spec(s):
    out = s.replace("\\", "\\\\")
    for c in "^$()[]{}?+*.|/":
        out = out.replace(c, "\\" + c)
    return out


def _esc_chunk(rng):
    from pregex.core.pre import Pregex
    f = Pregex._Pregex__escape
    bad = []
    for cp in range(*rng):
        c = chr(cp)
        if f(c) != _esc_spec(c):
            bad.append(cp)
            if len(bad) > 5:
                break
    return bad


def escape_check(workers=16, n_random=3000, seed=0):
    import multiprocessing, random
    from pregex.core.pre import Pregex
    step = 0x110000 // (workers * 4) + 1
    chunks = [(a, min(a + step, 0x110000)) for a in range(0, 0x110000, step)]
    with multiprocessing.Pool(workers) as pool:
        bad = [b for r in pool.map(_esc_chunk, chunks) for b in r]
    rnd = random.Random(seed)
    alpha = list(META) + list("ab1 \n\té") + ["\\", "\\"]
    bad_multi = []
    for _ in range(n_random):
        s = "".join(rnd.choice(alpha) for _ in range(rnd.randint(0, 8)))
        try:
            if Pregex._Pregex__escape(s) != _esc_spec(s):
                bad_multi.append(s)
                if len(bad_multi) > 5:
                    break
                continue
            p = Pregex(s)
            if not (p.is_exact_match(s) and (s == "" or not p.is_exact_match(s + s[-1])) and (len(s) < 1 or not p.is_exact_match(s[:-1]))):
                bad_multi.append("exact-match:" + s)
        except BaseException as e:          # RecursionError, re.error ...: the literal is not even accepted
            bad_multi.append(s)
            if len(bad_multi) > 5:
                break
    return {"single_chars": 0x110000, "bad_single": bad[:10], "random_strings": n_random, "bad_multi": bad_multi[:10]}


def _r1_chunk(rng):
    from pvc import native as N
    N.install_noopt()
    p, c = N._parser()
    bad = []
    for cp in range(*rng):
        ch = chr(cp)
        txt = ("\\" + ch) if ch in META else ch
        try:
            t = p.parse(txt, 24)
            ok = len(t) == 1 and str(t[0][0]) == "LITERAL" and t[0][1] == cp
        except Exception:
            ok = False
        if not ok:
            bad.append(cp)
            if len(bad) > 5:
                break
    return bad


def r1_validate(workers=16):
    """axiom R1, validated completely: every code point outside the metacharacter set is the literal itself, every
    metacharacter (and '/') preceded by a backslash is that literal"""
    import multiprocessing
    step = 0x110000 // (workers * 4) + 1
    chunks = [(a, min(a + step, 0x110000)) for a in range(0, 0x110000, step)]
    with multiprocessing.Pool(workers) as pool:
        bad = [b for r in pool.map(_r1_chunk, chunks) for b in r]
    return {"code_points": 0x110000, "bad": bad[:10]}


def meta_constructors():
    """every meta constructor over its finite parameter domain (flags) / a sample of integer parameters: constructs or
    raises a library exception; the pattern compiles under the library's flags; get_pattern() compiles to the same tree"""
    import re, itertools
    from pvc import native as N
    from pvc.bex_export import trees_equal
    ns = N.pregex_ns()
    import pregex.core.exceptions as ex
    lib = tuple(v for v in vars(ex).values() if isinstance(v, type) and issubclass(v, Exception))
    exprs = []
    for b in (True, False):
        exprs += [f"Text({b})", f"Whitespace({b})", f"NonWhitespace({b})", f"IPv4({b})", f"IPv6({b})", f"Date(is_extensible={b})"]
        for c in (True, False):
            exprs += [f"HttpUrl({c}, {b})"]
            for d in (True, False):
                exprs += [f"Email({c}, {d}, {b})"]
        for base in range(2, 17):
            exprs.append(f"Numeral({base}, is_extensible={b})")
        for cls in ("Integer", "PositiveInteger", "NegativeInteger", "UnsignedInteger", "Decimal", "PositiveDecimal",
                    "NegativeDecimal", "UnsignedDecimal"):
            for lo, hi in ((0, 0), (0, 9), (3, 10), (0, 2147483647), (99, 1000), (7, 7)):
                exprs.append(f"{cls}({lo}, {hi}, is_extensible={b})")
        exprs += [f"Integer(0, 99, True, {b})", f"Decimal(0, 99, 1, None, True, {b})", f"Word(2, 5, {b}, {b})",
                  f"WordContains(['a.c', 'x|y'], {b}, {b})", f"WordStartsWith('(', {b}, {b})", f"WordEndsWith(['$', 'ab'], {b}, {b})"]
    from specs import dates
    exprs += [f"Date({f!r})" for f in dates.documented_formats()]
    bad = []
    n = 0
    for e in exprs:
        n += 1
        try:
            p = eval(e, ns)
        except lib:
            continue
        except BaseException as err:
            bad.append({"expr": e, "what": f"raised {type(err).__name__}: {err}"[:200]})
            continue
        try:
            re.compile(str(p), re.M | re.S)
            g = p.get_pattern()
            eq, err = trees_equal(g, str(p))
            if not eq:
                bad.append({"expr": e, "what": "get_pattern() compiles to a different regex", "detail": str(err)})
        except re.error as err:
            bad.append({"expr": e, "what": f"pattern does not compile: {err}", "pattern": str(p)[:200]})
    return {"evaluations": n, "failures": bad[:20]}
