"""Native helpers (run under /venv/bin/python via pvc.native run_module)."""
import random, re, ipaddress


def validate_ip_spec(n=600):
    """The spec grammar of specs/ipaddr.py, rendered as a Python regex, agrees with the ipaddress module on
    generated candidate strings (validation of the SPEC, reported, not counted as proof)."""
    h = "[0-9a-fA-F]{1,4}"
    alts = [f"{h}(?::{h}){{7}}"]
    for l in range(8):
        for r in range(8 - l):
            left = "" if l == 0 else f"{h}(?::{h}){{{l - 1}}}"
            right = "" if r == 0 else f"{h}(?::{h}){{{r - 1}}}"
            alts.append(left + "::" + right)
    v6 = re.compile("(?:" + "|".join(alts) + ")", re.A)
    octet = r"(?:\d|[1-9]\d|1\d\d|2[0-4]\d|25[0-5])"
    v4 = re.compile(octet + r"(?:\." + octet + "){3}", re.A)
    rnd = random.Random(12345)
    bad = []
    cnt = 0
    for _ in range(n):
        k = rnd.randint(0, 9)
        parts = [rnd.choice(["0", "1", "ab", "ffff", "12345", "g", "", "F0", "0db8"]) for _ in range(k)]
        t = ":".join(parts)
        if rnd.random() < 0.6:
            j = rnd.randint(0, len(t))
            t = t[:j] + "::" + t[j:]
            if rnd.random() < 0.7:
                t = t.replace(":::", "::")
        try:
            ipaddress.IPv6Address(t); ok = True
        except Exception:
            ok = False
        cnt += 1
        if bool(v6.fullmatch(t)) != ok:
            bad.append(t)
        q = ".".join(rnd.choice(["0", "1", "9", "10", "99", "100", "199", "200", "249", "250", "255", "256", "01", "300", "", "a"]) for _ in range(rnd.choice([3, 4, 4, 4, 5])))
        try:
            ipaddress.IPv4Address(q); ok = True
        except Exception:
            ok = False
        cnt += 1
        if bool(v4.fullmatch(q)) != ok:
            bad.append(q)
    if bad:
        raise AssertionError(f"spec grammar disagrees with ipaddress on {bad[:5]}")
    return {"candidates": cnt, "disagreements": 0}


def date_formats():
    from pregex.meta.essentials import Date
    return list(Date._Date__date_formats())
