"""Native helpers (run under /venv/bin/python via pvc.native run_module)."""
import random, re, ipaddress


def validate_ip_spec(n=600):
    """The spec grammar of specs/ipaddr.py, rendered as a Python regex, agrees with the ipaddress module on
    generated candidate strings (validation of the SPEC, reported, not counted as proof)."""
    h = "[0-9a-fA-F]{1,4}"
    alts = [f"{h}(?::{h}){{7}}"]
    for l in range(8):
        for r in range(8 - l):
            left = "" if l == 0 else f"{h}(?::{h}){{{l - 1}}}"
            right = "" if r == 0 else f"{h}(?::{h}){{{r - 1}}}"
            alts.append(left + "::" + right)
    v6 = re.compile("(?:" + "|".join(alts) + ")", re.A)
    octet = r"(?:\d|[1-9]\d|1\d\d|2[0-4]\d|25[0-5])"
    v4 = re.compile(octet + r"(?:\." + octet + "){3}", re.A)
    rnd = random.Random(12345)
    bad = []
    cnt = 0
    for _ in range(n):
        k = rnd.randint(0, 9)
        parts = [rnd.choice(["0", "1", "ab", "ffff", "12345", "g", "", "F0", "0db8"]) for _ in range(k)]
        t = ":".join(parts)
        if rnd.random() < 0.6:
            j = rnd.randint(0, len(t))
            t = t[:j] + "::" + t[j:]
            if rnd.random() < 0.7:
                t = t.replace(":::", "::")
        try:
            ipaddress.IPv6Address(t); ok = True
        except Exception:
            ok = False
        cnt += 1
        if bool(v6.fullmatch(t)) != ok:
            bad.append(t)
        q = ".".join(rnd.choice(["0", "1", "9", "10", "99", "100", "199", "200", "249", "250", "255", "256", "01", "300", "", "a"]) for _ in range(rnd.choice([3, 4, 4, 4, 5])))
        try:
            ipaddress.IPv4Address(q); ok = True
        except Exception:
            ok = False
        cnt += 1
        if bool(v4.fullmatch(q)) != ok:
            bad.append(q)
    if bad:
        raise AssertionError(f"spec grammar disagrees with ipaddress on {bad[:5]}")
    return {"candidates": cnt, "disagreements": 0}


def date_formats():
    from pregex.meta.essentials import Date
    return list(Date._Date__date_formats())


# ---------------------------------------------------------------------------------------------------------------
# G6: Pregex.__escape, exhaustively over single characters (E5: a 1-character replace is a character-wise map, so
# the composition of such maps is character-wise and is determined by its values on single characters)

META = "\\^$()[]{}?+*.|/"


def _esc_spec(s):
    out = s.replace("\\", "\\\\")
    for c in "^$()[]{}?+*.|/":
        out = out.replace(c, "\\" + c)
    return out


def _esc_chunk(rng):
    from pregex.core.pre import Pregex
    f = Pregex._Pregex__escape
    bad = []
    for cp in range(*rng):
        c = chr(cp)
        if f(c) != _esc_spec(c):
            bad.append(cp)
            if len(bad) > 5:
                break
    return bad


def escape_check(workers=16, n_random=3000, seed=0):
    import multiprocessing, random
    from pregex.core.pre import Pregex
    step = 0x110000 // (workers * 4) + 1
    chunks = [(a, min(a + step, 0x110000)) for a in range(0, 0x110000, step)]
    with multiprocessing.Pool(workers) as pool:
        bad = [b for r in pool.map(_esc_chunk, chunks) for b in r]
    rnd = random.Random(seed)
    alpha = list(META) + list("ab1 \n\té") + ["\\", "\\"]
    bad_multi = []
    for _ in range(n_random):
        s = "".join(rnd.choice(alpha) for _ in range(rnd.randint(0, 8)))
        try:
            if Pregex._Pregex__escape(s) != _esc_spec(s):
                bad_multi.append(s)
                if len(bad_multi) > 5:
                    break
                continue
            p = Pregex(s)
            if not (p.is_exact_match(s) and (s == "" or not p.is_exact_match(s + s[-1])) and (len(s) < 1 or not p.is_exact_match(s[:-1]))):
                bad_multi.append("exact-match:" + s)
        except BaseException as e:          # RecursionError, re.error ...: the literal is not even accepted
            bad_multi.append(s)
            if len(bad_multi) > 5:
                break
    return {"single_chars": 0x110000, "bad_single": bad[:10], "random_strings": n_random, "bad_multi": bad_multi[:10]}


def _r1_chunk(rng):
    from pvc import native as N
    N.install_noopt()
    p, c = N._parser()
    bad = []
    for cp in range(*rng):
        ch = chr(cp)
        txt = ("\\" + ch) if ch in META else ch
        try:
            t = p.parse(txt, 24)
            ok = len(t) == 1 and str(t[0][0]) == "LITERAL" and t[0][1] == cp
        except Exception:
            ok = False
        if not ok:
            bad.append(cp)
            if len(bad) > 5:
                break
    return bad


def r1_validate(workers=16):
    """axiom R1, validated completely: every code point outside the metacharacter set is the literal itself, every
    metacharacter (and '/') preceded by a backslash is that literal"""
    import multiprocessing
    step = 0x110000 // (workers * 4) + 1
    chunks = [(a, min(a + step, 0x110000)) for a in range(0, 0x110000, step)]
    with multiprocessing.Pool(workers) as pool:
        bad = [b for r in pool.map(_r1_chunk, chunks) for b in r]
    return {"code_points": 0x110000, "bad": bad[:10]}


def meta_constructors():
    """every meta constructor over its finite parameter domain (flags) / a sample of integer parameters: constructs or
    raises a library exception; the pattern compiles under the library's flags; get_pattern() compiles to the same tree"""
    import re, itertools
    from pvc import native as N
    from pvc.bex_export import trees_equal
    ns = N.pregex_ns()
    import pregex.core.exceptions as ex
    lib = tuple(v for v in vars(ex).values() if isinstance(v, type) and issubclass(v, Exception))
    exprs = []
    for b in (True, False):
        exprs += [f"Text({b})", f"Whitespace({b})", f"NonWhitespace({b})", f"IPv4({b})", f"IPv6({b})", f"Date(is_extensible={b})"]
        for c in (True, False):
            exprs += [f"HttpUrl({c}, {b})"]
            for d in (True, False):
                exprs += [f"Email({c}, {d}, {b})"]
        for base in range(2, 17):
            exprs.append(f"Numeral({base}, is_extensible={b})")
        for cls in ("Integer", "PositiveInteger", "NegativeInteger", "UnsignedInteger", "Decimal", "PositiveDecimal",
                    "NegativeDecimal", "UnsignedDecimal"):
            for lo, hi in ((0, 0), (0, 9), (3, 10), (0, 2147483647), (99, 1000), (7, 7)):
                exprs.append(f"{cls}({lo}, {hi}, is_extensible={b})")
        exprs += [f"Integer(0, 99, True, {b})", f"Decimal(0, 99, 1, None, True, {b})", f"Word(2, 5, {b}, {b})",
                  f"WordContains(['a.c', 'x|y'], {b}, {b})", f"WordStartsWith('(', {b}, {b})", f"WordEndsWith(['$', 'ab'], {b}, {b})"]
    from specs import dates
    exprs += [f"Date({f!r})" for f in dates.documented_formats()]
    bad = []
    n = 0
    for e in exprs:
        n += 1
        try:
            p = eval(e, ns)
        except lib:
            continue
        except BaseException as err:
            bad.append({"expr": e, "what": f"raised {type(err).__name__}: {err}"[:200]})
            continue
        try:
            re.compile(str(p), re.M | re.S)
            g = p.get_pattern()
            eq, err = trees_equal(g, str(p))
            if not eq:
                bad.append({"expr": e, "what": "get_pattern() compiles to a different regex", "detail": str(err)})
        except re.error as err:
            bad.append({"expr": e, "what": f"pattern does not compile: {err}", "pattern": str(p)[:200]})
    return {"evaluations": n, "failures": bad[:20]}


# ---- text layer of the class algebra: complete finite decisions by data independence (F2) ------------------------------------
SPECIALS = ["\\", "^", "[", "]", "-", "/"]
REPS = SPECIALS + ["x", "y"]            # every character the functions single out, and two representatives of all the others


def _cesc(c):
    return "\\" + c if c in SPECIALS else c


def split_range_decision():
    """__split_range('a-b') == ['a', 'b'] for ALL characters a, b: the function only counts / splits at '-', so its behaviour is a
    function of WHICH of a, b is '-' (side condition read off the AST by the caller); the four cases are run on the real code,
    with two distinct representatives for 'any other character'.  Escaped end points ('\\a-b' ...) likewise, except '\\--\\-'."""
    from pregex.core.classes import AnyLetter
    import pregex.core.classes as cl
    f = getattr(cl, "__Class")._Class__split_range
    bad, n = [], 0
    for a in REPS:
        for b in REPS:
            n += 1
            if f(a + "-" + b) != [a, b]:
                bad.append({"item": a + "-" + b, "got": f(a + "-" + b)})
            for ea in (False, True):
                for eb in (False, True):
                    if not (ea or eb) or (ea and eb and a == "-" and b == "-"):
                        continue
                    n += 1
                    s, e = ("\\" + a if ea else a), ("\\" + b if eb else b)
                    if (ea and a not in SPECIALS) or (eb and b not in SPECIALS):
                        continue            # not a shape the class layer writes
                    if (not ea and a == "-" and eb) or (not eb and b == "-" and ea):
                        continue            # a raw '-' end point next to an escaped one: never written (escaping is all or nothing)
                    if f(s + "-" + e) != [s, e]:
                        bad.append({"item": s + "-" + e, "got": f(s + "-" + e)})
    return {"cases": n, "bad": bad[:10]}


def modify_classes_decision():
    """__modify_classes over every item shape and every singled-out character (+ two representatives of the rest), one item at a
    time (the function maps item by item: side condition read off the AST): escape=True writes the escaped normal form of an
    unescaped item; escape=False undoes exactly that; either way the item denotes the same characters as `re` reads them"""
    import re
    import pregex.core.classes as cl
    f = getattr(cl, "__Class")._Class__modify_classes
    bad, n = [], 0
    uni = "".join(chr(c) for c in range(32, 127))

    def den(item_escaped):
        return set(re.findall("[" + item_escaped + "]", uni))
    items = [(c, _cesc(c)) for c in REPS]
    items += [(a + "-" + b, _cesc(a) + "-" + _cesc(b)) for a in REPS for b in REPS if ord(a) <= ord(b)]
    for raw, esc in items:
        n += 1
        got = f({raw}, escape=True)
        if got != {esc}:
            bad.append({"item": raw, "escape": True, "got": sorted(got), "want": esc})
        back = f({esc}, escape=False)
        if back != {raw}:
            bad.append({"item": esc, "escape": False, "got": sorted(back), "want": raw})
        # R7 on the escaped form: it denotes the requested characters
        want = set(chr(c) for c in range(ord(raw[0]), ord(raw[-1]) + 1)) & set(uni) if len(raw) == 3 else {raw}
        if den(esc) != want:
            bad.append({"item": esc, "what": "escaped form read differently by re", "got": sorted(den(esc))[:5]})
    # several items at once: the result is the union of the item-wise results
    import itertools, random
    rnd = random.Random(3)
    for _ in range(200):
        pick = rnd.sample(items, rnd.choice([2, 3, 4]))
        n += 1
        if f({r for r, _ in pick}, escape=True) != {e for _, e in pick}:
            bad.append({"items": [r for r, _ in pick], "what": "not item-wise"})
        # R7 (printing): escaped items written one after the other, in any order, list the union of what each lists
        escs = [e for _, e in pick]
        rnd.shuffle(escs)
        if den("".join(escs)) != set().union(*[den(e) for e in escs]):
            bad.append({"items": escs, "what": "R7: the joined items are read differently from their union"})
    return {"cases": n, "bad": bad[:10]}


def shorthand_decision():
    """__verbose_to_shorthand only tests whether six particular items ('a-z', 'A-Z', '0-9', '_', ' ', TAB-CR range) are in the set and
    swaps them for \\w / \\d / \\s (side condition read off the AST by the caller): every subset of those six, with and without
    another item, both values of simplify_word - the result must list the same characters (as `re` reads them, ASCII range; the
    Unicode surplus of the shorthands is the caveat the properties state)"""
    import itertools, re
    import pregex.core.classes as cl
    f = getattr(cl, "__Class")._Class__verbose_to_shorthand
    six = ["a-z", "A-Z", "0-9", "_", " ", "\t-\r"]
    uni = "".join(chr(c) for c in range(0, 128))

    def den(items):
        items = sorted(items)
        return set(re.findall("[" + "".join(items) + "]", uni, re.A)) if items else set()
    bad, n = [], 0
    for k in range(len(six) + 1):
        for sub in itertools.combinations(six, k):
            for extra in ((), ("x",), ("!-\\/",)):
                for sw in (False, True):
                    n += 1
                    src = set(sub) | set(extra)
                    got = f(set(src), sw)
                    if den(got) != den(src):
                        bad.append({"items": sorted(src), "simplify_word": sw, "got": sorted(got)})
    return {"cases": n, "bad": bad[:10]}


def _single_chunk(rng):
    import re
    from pvc import native as N
    from pregex.core.classes import AnyFrom, AnyButFrom
    N.install_noopt()
    p, c = N._parser()
    bad = []
    for cp in range(*rng):
        if 0xD800 <= cp <= 0xDFFF:
            continue
        ch = chr(cp)
        try:
            t = p.parse(str(AnyFrom(ch)), 24)
            ok = len(t) == 1 and ((str(t[0][0]) == "LITERAL" and t[0][1] == cp) or
                                  (str(t[0][0]) == "IN" and len(t[0][1]) == 1 and str(t[0][1][0][0]) == "LITERAL" and t[0][1][0][1] == cp))
            t2 = p.parse(str(AnyButFrom(ch)), 24)
            ok = ok and len(t2) == 1 and ((str(t2[0][0]) == "NOT_LITERAL" and t2[0][1] == cp) or
                                          (str(t2[0][0]) == "IN" and len(t2[0][1]) == 2 and str(t2[0][1][0][0]) == "NEGATE"
                                           and str(t2[0][1][1][0]) == "LITERAL" and t2[0][1][1][1] == cp))
        except Exception:
            ok = False
        if not ok:
            bad.append(cp)
            if len(bad) > 5:
                break
    return bad


def single_character_classes(workers=16):
    """F4: AnyFrom(c) is the literal c and AnyButFrom(c) is 'not c', for EVERY code point c - read off CPython's parse of the
    emitted pattern (one literal item, possibly in brackets; negated likewise), so the one-character collapse of __process and
    the escaping of _to_pregex are decided completely for single characters"""
    import multiprocessing
    step = 0x110000 // (workers * 4) + 1
    chunks = [(a, min(a + step, 0x110000)) for a in range(0, 0x110000, step)]
    with multiprocessing.Pool(workers) as pool:
        bad = [b for r in pool.map(_single_chunk, chunks) for b in r]
    return {"code_points": 0x110000 - 2048, "bad": bad[:10]}


# ---- F6: Pregex.__repr__ (get_pattern / what compile() compiles) decided unit by unit ---------------------------------------
# A pattern is a sequence of UNITS: `\X` (a backslash and the character it escapes) or a single other character.  The reference
# below maps every unit on its own (given the quote repr picks for the whole string); (a) the real function is compared with it on
# every string up to a length over one representative of each class of characters its three steps can tell apart, plus long
# backslash runs; (b) for EVERY code point, the image of each unit is shown to denote what the unit denotes in every kind of
# context (sequence, class member, range end points, repetition operand, comment), by CPython's parser.
EXPORT_ALPHABET = ["\\", "'", '"', "a", "n", "é", "\n", "\x85"]


def export_reference(p):
    dq = ("'" in p) and ('"' not in p)        # repr delimits with double quotes: nothing is escaped for the quotes

    def E(c):
        if c == "'":
            return "'" if dq else "\\'"
        return repr(c)[1:-1] if c != "\\" else "\\"
    out, i = [], 0
    while i < len(p):
        c = p[i]
        if c == "\\" and i + 1 < len(p):
            X = p[i + 1]
            out.append("\\" + X if (" " <= X <= "~" and X != "'") else E(X))
            i += 2
        else:
            out.append(E(c))
            i += 1
    return "".join(out)


def _export_words(args):
    first, maxlen = args
    import itertools
    from pregex.core.pre import Pregex
    bad, n = [], 0
    for L in range(0, maxlen):
        for w in itertools.product(EXPORT_ALPHABET, repeat=L):
            s = first + "".join(w)
            n += 1
            try:
                got = Pregex(s, escape=False).get_pattern()
            except Exception as e:
                got = "raised " + type(e).__name__
            if got != export_reference(s):
                bad.append({"pattern": s, "exported": got, "unit_wise": export_reference(s)})
                if len(bad) > 3:
                    return n, bad
    return n, bad


EXPORT_CONTEXTS = ["%s", "a%sb", "[%s]", "[a%s]", "[^%sa]", "[%s-\U0010ffff]", "[\x00-%s]", "(?:%s)+", "(?#%s)x", "%s{2,}?", "(?<=%s)a"]


def _export_units(rng):
    from pvc import native as N
    N.install_noopt()
    p, _c = N._parser()

    def tree(t):
        try:
            return repr(p.parse(t, 24))
        except Exception as e:
            return "invalid"
    bad, n = [], 0
    for cp in range(*rng):
        if 0xD800 <= cp <= 0xDFFF:
            continue
        c = chr(cp)
        if " " <= c <= "~" and c != "'":
            continue                      # printable ASCII: both units are exported as they are
        for ctx_quote in ("", '"') if c == "'" else ("",):    # with a double quote elsewhere in the pattern repr escapes the single one
            imgs = []
            for unit in (c, "\\" + c):
                img = export_reference(unit + ctx_quote)
                imgs.append(img[:len(img) - len(ctx_quote)])
            if not all(i.isprintable() for i in imgs):
                bad.append({"unit": c, "image": imgs[0], "what": "image not printable"})
            for C in EXPORT_CONTEXTS:
                ti = {i: tree(C % i) for i in set(imgs)}
                for unit, img in zip((c, "\\" + c), imgs):
                    n += 1
                    if unit != img and tree(C % unit) != ti[img]:
                        bad.append({"unit": unit, "image": img, "context": C, "what": "image denotes something else"})
        if len(bad) > 5:
            break
    return n, bad


def export_decision(workers=16, maxlen=6):
    import multiprocessing
    step = 0x110000 // (workers * 4) + 1
    chunks = [(a, min(a + step, 0x110000)) for a in range(0, 0x110000, step)]
    firsts = [a + b for a in EXPORT_ALPHABET for b in EXPORT_ALPHABET] + [""] + EXPORT_ALPHABET
    with multiprocessing.Pool(workers) as pool:
        words = pool.map(_export_words, [(f, maxlen - 1) for f in firsts if len(f) == 2] + [(f, 1) for f in firsts if len(f) < 2])
        units = pool.map(_export_units, chunks)
    # long backslash runs (parity) in front of every representative
    runs = []
    from pregex.core.pre import Pregex
    for k in range(0, 40):
        for x in EXPORT_ALPHABET[1:] + [""]:
            for tail in ("", "'", '"a', "\\\n"):
                s = "\\" * k + x + tail
                got = Pregex(s, escape=False).get_pattern()
                if got != export_reference(s):
                    runs.append({"pattern": s, "exported": got, "unit_wise": export_reference(s)})
    return {"words": sum(w[0] for w in words) + 40 * 9 * 4, "word_bad": ([b for w in words for b in w[1]] + runs)[:6],
            "unit_checks": sum(u[0] for u in units), "unit_bad": [b for u in units for b in u[1]][:6],
            "max_length": maxlen + 1, "alphabet": EXPORT_ALPHABET}
