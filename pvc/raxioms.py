"""Differential validation of the regex semantics the language decisions rest on (axioms R3, R4, R6, R7, R9 as implemented by
pvc/rx2smt.py): randomly generated patterns over the constructs the library emits - literals, bracket classes (ranges,
negation, shorthands), alternation, non-capturing / capturing groups, greedy and lazy quantifiers incl. {n,m}, anchors,
word boundaries, one-character look-aheads, fixed-width look-behinds - are parsed by CPython, translated to the language
T(P) = { u # v # w } and compared with `re`'s own verdict on sampled (u, v, w).  A disagreement is a checker error (the
model of `re` is wrong), never a verdict about the library.  Counts go to the evidence; the axioms remain assumptions."""
import random
from . import lang, rx2smt as R
from .common import native, SEED

ATOMS = ["a", "b", "0", "1", "-", ":", " ", "_", r"\.", r"\d", r"\w", r"\s", "[ab]", "[0-4]", "[^a]", "[a-c1]", r"[\d_]", ".",
         r"[\]\-^]", r"[^\d]", "é", r"\/", r"\-", "(?i:a)", "(?i:[a-b]1)", r"\D", r"\W", r"\S", r"[^\w:]", "\n", r"[\n ]", "A", r"[A-Ca]",
         r"\+", r"\$", r"\^", r"[.]", r"[a\\]"]
ZERO = [r"\b", r"\B", "^", "$", r"\A", r"\Z", "(?=a)", "(?!a)", "(?=[0-9])", r"(?!\w)", "(?<=a)", "(?<!a)", r"(?<=\d)", r"(?<![a-c])", "(?<=ab)",
        r"(?<!:)"]
QUANT = ["?", "*", "+", "??", "*?", "+?", "{2}", "{1,2}", "{0,2}", "{2,}", "{1,3}?"]


def gen(rnd, depth=0):
    r = rnd.random()
    if depth >= 3 or r < 0.35:
        return rnd.choice(ATOMS)
    if r < 0.45:
        return rnd.choice(ZERO)
    if r < 0.65:
        return gen(rnd, depth + 1) + gen(rnd, depth + 1)
    if r < 0.8:
        x = gen(rnd, depth + 1)
        if x in ZERO or x.endswith(tuple(QUANT)):
            x = "(?:" + x + ")"
        elif len(x) > 1 and not (x.startswith("[") and x.endswith("]") and x.count("[") == 1) and not (x.startswith("\\") and len(x) == 2) \
                and not (x.startswith("(") and x.endswith(")") and balanced(x)):
            x = "(?:" + x + ")"
        return x + rnd.choice(QUANT)
    if r < 0.92:
        return "(?:" + gen(rnd, depth + 1) + "|" + gen(rnd, depth + 1) + ")"
    return "(" + gen(rnd, depth + 1) + ")"


def balanced(x):
    d = 0
    for i, c in enumerate(x):
        if c == "(" and (i == 0 or x[i - 1] != "\\"):
            d += 1
        elif c == ")" and x[i - 1] != "\\":
            d -= 1
            if d == 0 and i != len(x) - 1:
                return False
    return d == 0


def validate(rep, n_patterns=60, per=30):
    rnd = random.Random(SEED * 31 + 5)
    pats = []
    while len(pats) < n_patterns * 2:
        pats.append(gen(rnd))
    trees = native("parse", {"patterns": pats})
    U = lang.universe_default()
    jobs, skipped = [], 0
    for p, t in zip(pats, trees):
        if "tree" not in t:
            skipped += 1
            continue
        try:
            T = R.T_language(t["tree"], U)
        except R.Untranslatable:
            skipped += 1
            continue
        j = lang.Job(p, p, p, t["tree"], T, T, U)
        j.T = T
        jobs.append(j)
        if len(jobs) >= n_patterns:
            break
    xc = lang.crosscheck(jobs, per)         # raises CheckerError on any disagreement with CPython
    rep.extra["trusted_base_validation"] = {
        "what": "rx2smt's regex semantics (R3 quantifiers incl. lazy, R4 groups, R6 zero-width items, R7 bracket classes) vs CPython re on "
                "random patterns x sampled (context, candidate, context) triples", "patterns": len(jobs), "not_translatable_or_invalid": skipped,
        "triples": xc["cases"], "of_which_matching": xc["positive"], "disagreements": 0}
    return xc
