"""Native checks of the character-class layer (C06, C07).

F (complete finite decision): every zero-argument Any*/AnyBut* class and every token: membership of ALL 0x110000 code
points against specs/charsets.py, complement law AnyBut* == everything minus Any*.
B2 / B3 (bounded stand-ins, labelled): parametric constructors and the algebra (| - ~) over a pool of classes, membership
oracle = python set algebra over a universe of interesting code points, under several PYTHONHASHSEED values."""
import itertools, multiprocessing, random, re, sys
from . import native as N
sys.path.insert(0, __import__("os").path.dirname(__import__("os").path.dirname(__import__("os").path.abspath(__file__))))

ALL = None


def allchars():
    global ALL
    if ALL is None:
        ALL = "".join(map(chr, range(0x110000)))
    return ALL


def matched(p, text):
    return set(re.findall(str(p), text, re.S))


def surplus(which):
    out = set()
    a = allchars()
    if "d" in which:
        out |= set(re.findall(r"\d", a)) - set("0123456789")
    if "s" in which:
        out |= set(re.findall(r"\s", a)) - set(" \t\n\r\x0b\x0c")
    if "w" in which:
        out |= set(re.findall(r"\w", a)) - set("ABCDEFGHIJKLMNOPQRSTUVWXYZabcdefghijklmnopqrstuvwxyz0123456789_")
    return out


def expand(ranges):
    s = set()
    for a, b in ranges:
        s.update(map(chr, range(a, b + 1)))
    return s


def named_classes():
    from specs import charsets as C
    ns = N.pregex_ns()
    fails = []
    done = 0
    a = allchars()
    universe = set(a)
    for name, (lo, up, mask) in C.NAMED.items():
        variants = [(name + "()", ns[name]())]
        if name == "AnyWordChar":
            variants.append(("AnyWordChar(is_global=True)", ns[name](is_global=True)))
        for label, p in variants:
            got = matched(p, a)
            sp = surplus(mask)
            lo_s, up_s = expand(lo), expand(up)
            miss = (lo_s - got)
            extra = (got - up_s) - sp
            done += 1
            if miss or extra:
                fails.append({"class": label, "pattern": str(p), "missing": sorted(miss)[:5], "extra": sorted(extra)[:5]})
    for neg, pos in C.COMPLEMENT.items():
        variants = [(neg + "()", ns[neg](), ns[pos]())]
        if neg == "AnyButWordChar":
            variants.append(("AnyButWordChar(is_global=True)", ns[neg](is_global=True), ns[pos](is_global=True)))
        for label, n, p in variants:
            gn, gp = matched(n, a), matched(p, a)
            done += 1
            if gn != universe - gp:
                d = (gn ^ (universe - gp))
                fails.append({"class": label, "pattern": str(n), "complement_of": str(p), "differs_on": sorted(d)[:5]})
            # ~ agrees with the AnyBut* class
            try:
                inv = ~p
                if matched(inv, a) != gn:
                    fails.append({"class": "~" + pos + "()", "pattern": str(inv), "expected": str(n)})
            except Exception as e:
                fails.append({"class": "~" + pos + "()", "error": type(e).__name__})
    for name, ch in C.TOKENS.items():
        p = ns[name]()
        got = matched(p, a)
        done += 1
        if got != {ch}:
            fails.append({"class": name + "()", "pattern": str(p), "matched": sorted(got)[:5], "expected": ch})
    return {"evaluations": done, "code_points": 0x110000, "failures": fails}


# ---- bounded stand-ins -------------------------------------------------------------------------------------------
DIST = ["\\", "^", "[", "]", "-", "/", "$", ".", "(", ")", "|", "a", "b", "z", "A", "Z", "0", "9", "_", "\t", "\n", " ", "é", "?", "{"]
TOKEN_ARGS = ["Backslash()", "Dollar()", "Newline()", "Space()", "Euro()"]
_UNI = None


def universe():
    global _UNI
    if _UNI is None:
        cps = set(range(0, 0x250))
        for c in DIST:
            for d in (-2, -1, 0, 1, 2):
                cps.add(max(0, ord(c) + d))
        for base in (0x386, 0x388, 0x3CE, 0x400, 0x4FF, 0x590, 0x5FF, 0x3131, 0x314E, 0xAC00, 0xD7A3, 0x4E00, 0x9FD5, 0x20AC, 0x10FFFF,
                     0x1E9E, 0x2028, 0x660, 0x85, 0xA0):
            for d in (-1, 0, 1):
                if 0 <= base + d <= 0x10FFFF:
                    cps.add(base + d)
        _UNI = "".join(map(chr, sorted(cps)))
    return _UNI


def _ctor_case(args):
    kind, elems, neg = args
    ns = N.pregex_ns()
    import pregex.core.exceptions as ex
    u = universe()
    vals = [eval(e, ns) if e.endswith("()") else e for e in elems]
    chars = [str(v).replace("\\", "", 1) if not isinstance(v, str) else v for v in vals]
    try:
        if kind == "from":
            p = (ns["AnyButFrom"] if neg else ns["AnyFrom"])(*vals)
            want = set(chars)
        else:
            p = (ns["AnyButBetween"] if neg else ns["AnyBetween"])(*vals)
            want = set(map(chr, range(ord(chars[0]), ord(chars[1]) + 1)))
    except ex.InvalidRangeException:
        if kind == "between" and ord(chars[0]) >= ord(chars[1]):
            return None
        return {"ctor": kind, "args": elems, "neg": neg, "what": "InvalidRangeException although start < end"}
    except Exception as e:
        return {"ctor": kind, "args": elems, "neg": neg, "what": f"raised {type(e).__name__}: {e}"[:160]}
    if kind == "between" and ord(chars[0]) >= ord(chars[1]):
        return {"ctor": kind, "args": elems, "neg": neg, "what": "start >= end accepted", "pattern": str(p)}
    try:
        got = matched(p, u)
    except re.error as e:
        return {"ctor": kind, "args": elems, "neg": neg, "what": f"pattern does not compile: {e}", "pattern": str(p)}
    exp = (set(u) - want) if neg else (want & set(u))
    mask = (surplus("dsw") & set(u)) if re.search(r"\\[dwsDWS]", str(p)) else set()
    if (got ^ exp) - mask:
        return {"ctor": kind, "args": elems, "neg": neg, "what": "matches the wrong set", "pattern": str(p),
                "missing": sorted(exp - got)[:4], "extra": sorted(got - exp)[:4]}
    return None


def constructors(tier="quick", seed=0, workers=16):
    rnd = random.Random(seed)
    cases = []
    elems = DIST + TOKEN_ARGS
    for a in elems:
        for neg in (False, True):
            cases.append(("from", [a], neg))
    pairs = list(itertools.combinations(elems, 2))
    for a, b in pairs:
        for neg in (False, True):
            cases.append(("from", [a, b], neg))
    triples = list(itertools.combinations(DIST, 3))
    for t in (triples if tier == "thorough" else rnd.sample(triples, 400)):
        cases.append(("from", list(t), rnd.random() < 0.5))
    for a in elems:
        for b in elems:
            cases.append(("between", [a, b], False))
            if tier == "thorough" or rnd.random() < 0.3:
                cases.append(("between", [a, b], True))
    with multiprocessing.Pool(workers) as pool:
        res = pool.map(_ctor_case, cases, chunksize=64)
    fails = [r for r in res if r]
    return {"evaluations": len(cases), "failures": fails[:60], "n_failures": len(fails), "universe": len(universe())}


def ascii_pairs(workers=16):
    """F5: AnyBetween / AnyButBetween for EVERY ordered pair of ASCII end points (the documented exception when start >= end) and
    AnyFrom / AnyButFrom for every pair of ASCII characters: membership over the whole universe of this module (all code points
    below U+0250 and the distinguished ones) against the requested set"""
    cases = [("between", [chr(x), chr(y)], neg) for x in range(128) for y in range(128) for neg in (False, True)]
    cases += [("from", [chr(x), chr(y)], neg) for x in range(128) for y in range(x, 128) for neg in (False, True)]
    with multiprocessing.Pool(workers) as pool:
        res = pool.map(_ctor_case, cases, chunksize=256)
    fails = [r for r in res if r]
    return {"evaluations": len(cases), "failures": fails[:20], "n_failures": len(fails)}


POOL = ["AnyLetter()", "AnyLowercaseLetter()", "AnyUppercaseLetter()", "AnyDigit()", "AnyWordChar()", "AnyWordChar(is_global=True)",
        "AnyPunctuation()", "AnyWhitespace()", "AnyGermanLetter()", "AnyGreekLetter()", "AnyHebrewLetter()",
        "AnyBetween('a', 'c')", "AnyBetween('a', 'z')", "AnyBetween('b', 'z')", "AnyBetween('b', 'c')", "AnyBetween('c', 'f')",
        "AnyBetween('0', '5')", "AnyBetween('3', '5')", "AnyBetween('!', '/')", "AnyBetween('A', '\\\\')", "AnyBetween('-', 'a')",
        "AnyBetween('[', ']')", "AnyBetween('y', '{')", "AnyBetween('d', 'e')", "AnyBetween('a', 'b')",
        "AnyFrom('a')", "AnyFrom('b', 'd')", "AnyFrom('-')", "AnyFrom(']', 'x')", "AnyFrom('\\\\')", "AnyFrom('^', '-')", "AnyFrom('z')",
        "AnyFrom('a', 'c', 'e')", "AnyFrom('0', '9')", "AnyFrom(Newline())", "AnyFrom('/', '.')", "AnyFrom('{', 'y')", "AnyFrom('_')",
        "Any()"]


def _alg_case(args):
    ea, eb, op = args
    ns = N.pregex_ns()
    import pregex.core.exceptions as ex
    u = universe()
    U = set(u)

    def S(p):
        return matched(p, u)
    try:
        A = eval(ea, ns)
        B = eval(eb, ns) if eb is not None else None
    except Exception as e:
        return None
    def shorthand_mask(*ps):
        m = set()
        for q in ps:
            t = str(q)
            if re.search(r"\\[dD]", t):
                m |= surplus("d")
            if re.search(r"\\[wW]", t):
                m |= surplus("dw")
            if re.search(r"\\[sS]", t):
                m |= surplus("s")
        return m & U
    mask = shorthand_mask(A, B if B is not None else "")
    try:
        sa = S(A)
        sb = S(B) if B is not None else None
    except re.error as e:
        # an operand that is itself a result of the algebra (nested expression) does not compile
        return {"expr": f"{ea} {op} {eb}", "what": f"an operand expression yields a class text that does not compile: {e}",
                "operands": [str(A), str(B)]}
    try:
        if op == "or":
            R = A | B
            exp = sa | sb
        elif op == "sub":
            exp = sa - sb
            try:
                R = A - B
            except ex.EmptyClassException:
                if not (exp - mask):
                    return None
                return {"expr": f"{ea} - {eb}", "what": "EmptyClassException although characters are left", "left": sorted(exp)[:4]}
            except ex.GlobalWordCharSubtractionException:
                return None
            if not exp and not mask:
                return {"expr": f"{ea} - {eb}", "what": "nothing is left but no EmptyClassException", "pattern": str(R)}
        elif op == "inv":
            try:
                R = ~A
            except ex.CannotBeNegatedException:
                return None if ea == "Any()" else {"expr": f"~{ea}", "what": "CannotBeNegatedException"}
            exp = U - sa
            RR = ~R
            if S(RR) != sa:
                return {"expr": f"~~{ea}", "what": "double negation differs", "pattern": str(RR)}
        elif op == "negor":
            R = (~A) | (~B)
            exp = U - (sa | sb)          # documented: negated classes union their EXCLUDED sets
        elif op == "negsub":
            exp_ex = sa - sb
            try:
                R = (~A) - (~B)
            except ex.EmptyClassException:
                return None if not (exp_ex - mask) else {"expr": f"~{ea} - ~{eb}", "what": "EmptyClassException although excluded characters are left"}
            except ex.GlobalWordCharSubtractionException:
                return None
            exp = U - exp_ex
        got = S(R)
        mask |= shorthand_mask(R)
    except (ex.CannotBeUnionedException, ex.CannotBeSubtractedException, ex.CannotBeNegatedException):
        return {"expr": f"{ea} {op} {eb}", "what": "documented type-mix exception for two regular classes"}
    except re.error as e:
        return {"expr": f"{ea} {op} {eb}", "what": f"result does not compile: {e}"}
    except Exception as e:
        return {"expr": f"{ea} {op} {eb}", "what": f"raised {type(e).__name__}: {e}"[:200]}
    if (got ^ exp) - mask:
        return {"expr": f"{ea} {op} {eb}", "what": "result differs from set algebra", "pattern": str(R),
                "missing": sorted((exp - got) - mask)[:4], "extra": sorted((got - exp) - mask)[:4]}
    return None


def algebra(tier="quick", seed=0, workers=16):
    rnd = random.Random(seed)
    cases = []
    for a in POOL:
        cases.append((a, None, "inv"))
    pairs = [(a, b) for a in POOL for b in POOL]
    for a, b in pairs:
        cases.append((a, b, "or"))
        cases.append((a, b, "sub"))
    sub = pairs if tier == "thorough" else rnd.sample(pairs, 300)
    for a, b in sub:
        if "Any()" in (a, b):
            continue
        cases.append((a, b, "negor"))
        cases.append((a, b, "negsub"))
    # unions of three, then subtraction (nested expressions)
    for _ in range(300 if tier == "quick" else 5000):
        a, b, c = rnd.sample(POOL[:-1], 3)
        cases.append((f"({a} | {b})", c, "sub"))
        cases.append((f"({a} - {b})" if rnd.random() < 0.5 else f"({a} | {b})", c, "or"))
    with multiprocessing.Pool(workers) as pool:
        res = pool.map(_alg_case, cases, chunksize=64)
    fails = [r for r in res if r]
    return {"evaluations": len(cases), "failures": fails[:60], "n_failures": len(fails), "universe": len(universe())}
