"""Symbolic side of the contract language: spec builtins, argument construction for each parameter kind (the
enumerated tagged-argument domain of E2), and the result constructors used when a contract is *assumed* at a call
site.  The concrete (run-time) side of the same names lives in pvc/specrt.py."""
import ast, os, z3
from .values import *
from .symex import (Engine, Limitation, RaiseExc, SpecFunc, simplify_bool, CharV, CharPair, FileV, SetV)
from .common import VERIF, CheckerError
from . import respec

TYPE_NAMES = ["Alternation", "Assertion", "Class", "Empty", "Group", "Other", "Quantifier", "Token"]


def type_enum(eng, name):
    return getattr(eng.index.modules["pregex.core.pre"].pyobj._Type, name)


def pregex_class(eng):
    return eng.index.modules["pregex.core.pre"].classes["Pregex"]


def new_pregex(eng, path, label, tname, cls=None, text=None, cats=None, repeatable=None, compiled=False):
    """an arbitrary Pregex value of the given inferred type that satisfies the class invariant Inv"""
    obj = Obj(cls or pregex_class(eng), "pregex", label=label)
    info = {"oid": obj.oid, "type": tname, "label": label}
    if cats:
        info["cats"] = cats
    if text is None:
        if tname == "Empty":
            text = ""
        else:
            t = z3.String(f"pat_{label}_{obj.oid}")
            path.assume(z3.Length(t) > 0)
            text = SStr([Atom(t, "pat", info)])
    f = path.fields(obj)
    f["_Pregex__pattern"] = text
    f["_Pregex__type"] = type_enum(eng, tname)
    if repeatable is None:
        # Inv: only an Assertion can be non-repeatable
        repeatable = z3.Bool(f"rep_{label}_{obj.oid}") if tname == "Assertion" else True
    f["_Pregex__repeatable"] = repeatable
    f["_Pregex__compiled"] = None
    obj.info = info
    return obj


# ------------------------------------------------------------------------------------------------------
# parameter kinds

KIND_TAGS = {
    "self": TYPE_NAMES,
    "pregex": TYPE_NAMES,
    "pre": TYPE_NAMES + ["str0", "str1", "str2", "other"],
    "dyn": ["int", "bool", "none", "float", "str", "other"],
    "dynint": ["int", "bool", "float", "str", "other", "none"],
    "bool": ["bool"],
    "int": ["int"],
    "optint": ["int", "none"],
    "str": ["str"],
    "optname": ["none", "str", "other", "int"],
    "name": ["str", "other", "int", "none"],
    "text": ["str"],
}


def forks_for(params):
    import itertools
    names = list(params)
    spaces = []
    for n in names:
        k = params[n]
        spaces.append(k if isinstance(k, list) else KIND_TAGS[k])
    return [dict(zip(names, combo)) for combo in itertools.product(*spaces)]


def make_value(eng, path, name, kind, tag):
    if tag in TYPE_NAMES:
        return new_pregex(eng, path, name, tag)
    if tag == "int":
        return z3.Int(f"{name}")
    if tag == "bool":
        return z3.Bool(f"{name}")
    if tag == "float":
        return z3.Real(f"{name}")
    if tag == "none":
        return None
    if tag == "other":
        return Other(name)
    if tag == "str":
        return SStr([Atom(z3.String(f"{name}"), "opq", {"key": name})])
    if tag in ("str0", "str1", "str2"):
        # a python string of length 0 / 1 / >= 2
        if tag == "str0":
            return ""
        t = z3.String(f"{name}")
        path.assume(z3.Length(t) == 1 if tag == "str1" else z3.Length(t) >= 2)
        return SStr([Atom(t, "opq", {"key": name, "lenclass": tag})])
    raise CheckerError(f"parameter tag {tag}")


def make_args(eng, path, fork, fi, contract):
    env = {}
    for name, kind in contract["params"].items():
        env[name] = make_value(eng, path, name, kind, fork[name])
    return env


# ------------------------------------------------------------------------------------------------------
# spec builtins (symbolic)

def sb_EMPTY(eng, path, p):
    return isinstance(p, Obj) and p.kind == "pregex" and path.getf(p, "_Pregex__type").name == "Empty"


def sb_TYPE(eng, path, p):
    return path.getf(p, "_Pregex__type").name


def sb_TEXT(eng, path, p):
    return path.getf(p, "_Pregex__pattern")


def sb_REPEATABLE(eng, path, p):
    return path.getf(p, "_Pregex__repeatable")


def sb_INT(eng, path, x):
    return is_intv(x)


def sb_BOOLV(eng, path, x):
    return is_boolv(x)


def sb_NONE(eng, path, x):
    return x is None


def sb_STRV(eng, path, x):
    return is_strv(x)


def sb_FLOATV(eng, path, x):
    return is_realv(x)


def sb_PREGEX(eng, path, x):
    return isinstance(x, Obj) and x.kind == "pregex"


def sb_NUMERIC(eng, path, x):
    return is_numv(x)


def sb_DECS(eng, path, n):
    if isinstance(n, int) and not isinstance(n, bool):
        return str(n)
    return SStr([Atom(DEC(n), "dec", n)])


def sb_SAME_TREE(eng, path, a, b):
    a = unfold_res(a)
    b = unfold_res(b)
    return respec.same_tree(eng, path, a, b)


def unfold_res(t):
    """a text that is exactly the result of an assumed contract stands for that contract's reference text"""
    while isinstance(t, SStr) and len(t.pieces) == 1 and not isinstance(t.pieces[0], str) \
            and t.pieces[0].tag == "res" and t.pieces[0].info.get("ref") is not None:
        t = t.pieces[0].info["ref"]
    return t


def sb_SAME_TEXT(eng, path, a, b):
    return eng.equal(a, b, path)


def sb_GROUPED(eng, path, p):
    """reference rendering of an operand as one unit: (?:P)   ('' for the empty pattern)"""
    t = path.getf(p, "_Pregex__pattern")
    if t == "":
        return ""
    return mkstr("(?:", t, ")")


def sb_IMPLIES(eng, path, a, b):
    ta = eng.truth(a, path)
    if ta is False:
        return True
    tb = eng.truth(b, path)
    if ta is True:
        return tb
    if tb is True:
        return True
    return simplify_bool(z3.Implies(zterm(ta), zterm(tb)))


def sb_ESC(eng, path, s):
    """the escaped form of a python string (specification of Pregex.__escape)"""
    if isinstance(s, str):
        out = s.replace("\\", "\\\\")
        for c in "^$()[]{}?+*.|/":
            out = out.replace(c, "\\" + c)
        return out
    key = str_key(s)
    lenclass = None
    for p in s.pieces:
        if not isinstance(p, str) and p.info and p.info.get("lenclass"):
            lenclass = p.info["lenclass"]
    cats = {"str1": [respec.ATOM], "str2": [respec.BRANCH], None: [respec.BRANCH, respec.ATOM]}[lenclass]
    return SStr([Atom(z3.Function("ESC", StrS, StrS)(s.term()), "esc", {"key": repr(key), "cats": cats, "of": s})])


def sb_TYPEV(eng, path, p):
    return path.getf(p, "_Pregex__type")


def sb_RULE(eng, path, p, idx):
    """the grouping rule the CODE's table gives for the operand's inferred type (read from the real class)"""
    rules = pregex_class(eng).pyobj._Pregex__groupping_rules
    return bool(rules[path.getf(p, "_Pregex__type")][idx])


def sb_GRPTEXT(eng, path, p):
    """text of str(p.group()) as promised by group()'s contract"""
    q = "pregex.core.pre.Pregex.group"
    fi = eng.index.func(q)
    obj = eng.apply_contract(fi, eng.contracts[q], {"self": p, "is_case_insensitive": False}, None, path)
    return path.getf(obj, "_Pregex__pattern")


FIXEDW_F = z3.Function("FIXEDW", StrS, BoolS)
LBMSG = "look-behind requires fixed-width pattern"


def sb_FIXEDW(eng, path, text):
    """R6: re accepts the text as a look-behind body iff it has one fixed width (uninterpreted; see B6)"""
    return FIXEDW_F(str_term(text))


def ext_re_compile(eng, path, args, kwargs):
    """re.compile(text, flags) as an external with an assumed contract (R6, R8)"""
    text = args[0]
    if isinstance(text, SStr) and len(text.pieces) >= 2 and isinstance(text.pieces[0], str) and text.pieces[0].startswith("(?<=") \
            and isinstance(text.pieces[-1], str) and text.pieces[-1].endswith(")"):
        body = mkstr(text.pieces[0][4:], *text.pieces[1:-1], text.pieces[-1][:-1])
        w = FIXEDW_F(str_term(body))
        i = path.choose([("compiled", w), ("fixed-width error", z3.Not(w)), ("other re.error", w)], "re.compile")
        if i == 0:
            return Obj("re.Pattern", kind="compiled")
        e = Obj("error", kind="exception")
        if i == 1:
            path.setf(e, "msg", LBMSG, frame=False)
        else:
            m = eng.fresh("remsg", StrS)
            path.assume(m != z3.StringVal(LBMSG))
            path.setf(e, "msg", SStr([Atom(m, "opq")]), frame=False)
        raise RaiseExc("error", e, info="re.error from re.compile")
    raise Limitation("re.compile on a text that is not a look-behind probe")


SPEC_BUILTINS = {k[3:]: v for k, v in list(globals().items()) if k.startswith("sb_")}


# ------------------------------------------------------------------------------------------------------
# result constructors for assumed contracts ("returns" entries of the contract table)

def ret_pregex(eng, path, env, fi, contract):
    """fresh Pregex value; its text is only known up to tree-equality with the contract's reference text"""
    from .vc import eval_spec
    c = contract
    same = c.get("returns_self_if")
    if same is not None:
        cond = eng.truth(eval_spec(eng, same, env, path, fi), path)
        if path.branch(cond, f"returns-self {fi.qualname}"):
            return env["self"]
    ref = eval_spec(eng, c["ref"], env, path, fi) if c.get("ref") else None
    key = (fi.qualname, tuple(value_key(v) for v in env.values()))
    if key in eng.memo_results:
        return eng.memo_results[key]
    obj = Obj(pregex_class(eng), "pregex", label="res:" + fi.qualname.split(".")[-1])
    info = {"key": repr(key), "ref": ref, "oid": obj.oid, "atomic": bool(c.get("atomic"))}
    f = path.fields(obj)
    if ref == "":
        f["_Pregex__pattern"] = ""
        f["_Pregex__type"] = type_enum(eng, "Empty")
    else:
        f["_Pregex__pattern"] = SStr([Atom(z3.String(f"res_{obj.oid}"), "res", info)])
        f["_Pregex__type"] = Unknown("type of " + fi.qualname + " result")
    f["_Pregex__repeatable"] = Unknown("repeatable flag of " + fi.qualname + " result")
    f["_Pregex__compiled"] = None
    eng.memo_results[key] = obj
    return obj


def value_key(v):
    if isinstance(v, Obj):
        return ("obj", v.oid)
    if is_sym(v):
        return ("z3", v.sexpr())
    if isinstance(v, SStr):
        return v.key()
    if isinstance(v, (tuple, list)):
        return tuple(value_key(x) for x in v)
    return repr(v)


def ret_expr(eng, path, env, fi, contract):
    from .vc import eval_spec
    return eval_spec(eng, contract["result"], env, path, fi)


def ret_newpregex(eng, path, env, fi, contract):
    """Pregex(pattern, escape): text = ESC(pattern) | pattern; the inferred type is what Inv / the assumed contract of
    __infer_type gives: '' -> Empty, an escaped 1-character literal -> Token, a longer escaped literal -> Other"""
    pat, esc = env["pattern"], env["escape"]
    if not isinstance(esc, bool):
        esc = path.branch(esc, "escape flag")
    text = sb_ESC(eng, path, pat) if esc else pat
    obj = Obj(pregex_class(eng), "pregex", label="new")
    f = path.fields(obj)
    f["_Pregex__pattern"] = text
    f["_Pregex__compiled"] = None
    f["_Pregex__repeatable"] = Unknown("repeatable flag of a constructed value")
    f["_Pregex__type"] = Unknown("type of a constructed value")
    if text == "":
        f["_Pregex__type"] = type_enum(eng, "Empty")
        f["_Pregex__repeatable"] = True
    elif isinstance(text, SStr) and len(text.pieces) == 1 and not isinstance(text.pieces[0], str) and text.pieces[0].tag == "esc":
        cats = text.pieces[0].info["cats"]
        if cats == [respec.ATOM]:
            f["_Pregex__type"] = type_enum(eng, "Token")
            f["_Pregex__repeatable"] = True
        elif cats == [respec.BRANCH]:
            f["_Pregex__type"] = type_enum(eng, "Other")
            f["_Pregex__repeatable"] = True
        text.pieces[0].info["oid"] = obj.oid
    return obj


def ret_to_pregex(eng, path, env, fi, contract):
    pre = env["pre"]
    if isinstance(pre, Obj) and pre.kind == "pregex":
        return pre
    return ret_newpregex(eng, path, {"pattern": pre, "escape": True}, fi, contract)


RETURNS = {"to_pregex": ret_to_pregex, "pregex": ret_pregex, "expr": ret_expr, "newpregex": ret_newpregex}


# ------------------------------------------------------------------------------------------------------
# engine construction

def load_spec_module(eng):
    """contracts/spec_helpers.py: spec functions written in python, evaluated by the executor itself"""
    path = os.path.join(VERIF, "contracts", "spec_helpers.py")
    tree = ast.parse(open(path).read())

    class M:
        name = "contracts.spec_helpers"
        classes, functions, aliases = {}, {}, {}
        pyobj = None
    m = M()
    for node in tree.body:
        if isinstance(node, ast.FunctionDef):
            eng.spec_funcs[node.name] = SpecFunc(node.name, node, m)
    eng.spec_module = m


def build_engine(index, contracts):
    table = {}
    for q, c in contracts.items():
        c = dict(c)
        r = c.get("returns")
        if isinstance(r, str):
            fn = RETURNS[r]
            c["returns"] = (lambda fn, c: (lambda eng, path, env, fi: fn(eng, path, env, fi, c)))(fn, c)
        if "forks" not in c and "params" in c:
            c["forks"] = forks_for(c["params"])
        table[q] = c
    eng = Engine(index, table, dict(SPEC_BUILTINS))
    eng.last_detail = None
    eng.externals["re.compile"] = ext_re_compile
    load_spec_module(eng)
    return eng
