"""Symbolic side of the contract language: spec builtins, argument construction for each parameter kind (the
enumerated tagged-argument domain of E2), and the result constructors used when a contract is *assumed* at a call
site.  The concrete (run-time) side of the same names lives in pvc/specrt.py."""
import ast, os, z3
from .values import *
from .symex import (Engine, Limitation, RaiseExc, SpecFunc, simplify_bool, CharV, CharPair, FileV, SetV)
from .common import VERIF, CheckerError
from . import respec

TYPE_NAMES = ["Alternation", "Assertion", "Class", "Empty", "Group", "Other", "Quantifier", "Token"]


def type_enum(eng, name):
    return getattr(eng.index.modules["pregex.core.pre"].pyobj._Type, name)


def pregex_class(eng):
    return eng.index.modules["pregex.core.pre"].classes["Pregex"]


def new_pregex(eng, path, label, tname, cls=None, text=None, cats=None, repeatable=None, compiled=False):
    """an arbitrary Pregex value of the given inferred type that satisfies the class invariant Inv"""
    obj = Obj(cls or pregex_class(eng), "pregex", label=label)
    info = {"oid": obj.oid, "type": tname, "label": label}
    if cats:
        info["cats"] = cats
    if text is None:
        if tname == "Empty":
            text = ""
        else:
            t = z3.String(f"pat_{label}_{obj.oid}")
            path.assume(z3.Length(t) > 0)
            text = SStr([Atom(t, "pat", info)])
    f = path.fields(obj)
    f["_Pregex__pattern"] = text
    f["_Pregex__type"] = type_enum(eng, tname)
    if repeatable is None:
        # Inv: only an Assertion can be non-repeatable
        repeatable = z3.Bool(f"rep_{label}_{obj.oid}") if tname == "Assertion" else True
    f["_Pregex__repeatable"] = repeatable
    f["_Pregex__compiled"] = None
    obj.info = info
    return obj


# ------------------------------------------------------------------------------------------------------
# parameter kinds

from pvc_kinds import KIND_TAGS, VARPRE, VARCHARS

NAME_RX = "[A-Za-z_]\\w*"
SHAPES = {
    "nc": ("(?:", None, ")"), "nci": ("(?i:", None, ")"), "cap": ("(", None, ")"), "named": ("(?P<", "N", ">", None, ")"),
    "neglook": ("(?!", None, ")"), "neglookbehind": ("(?<!", None, ")"), "cond": ("(?(", "N", ")", None, ")"), "bref": ("(?P=", "N", ")"),
}


def name_lang():
    from . import strre
    return strre.plain_regex(NAME_RX)


def new_group_shaped(eng, path, label, shape):
    """a Group-typed operand whose text has one of the shapes the class invariant lists"""
    from . import strre
    obj = Obj(pregex_class(eng), "pregex", label=label)
    pieces = []
    body = gname = None
    for part in SHAPES[shape]:
        if part is None:
            t = z3.String(f"body_{label}_{obj.oid}")
            path.assume(z3.Length(t) > 0)
            path.assume(z3.Not(z3.PrefixOf(z3.StringVal("?"), t)))
            body = SStr([Atom(t, "pat", {"oid": obj.oid * 1000 + 1, "type": "Body", "label": label + ".body",
                                         "cats": [respec.ALT, respec.BRANCH, respec.PIECE, respec.ATOM]})])
            pieces.append(body)
        elif part == "N":
            t = z3.String(f"gname_{label}_{obj.oid}")
            path.assume(strre.lang_pred(eng, name_lang())(t))
            gname = SStr([Atom(t, "name", {"key": f"gname_{label}", "lang": name_lang()})])
            pieces.append(gname)
        else:
            pieces.append(part)
    f = path.fields(obj)
    f["_Pregex__pattern"] = mkstr(*pieces)
    f["_Pregex__type"] = type_enum(eng, "Group")
    f["_Pregex__repeatable"] = True
    f["_Pregex__compiled"] = None
    obj.info = {"oid": obj.oid, "type": "Group", "shape": shape, "body": body, "gname": gname, "label": label}
    return obj



def forks_for(params):
    import itertools
    names = list(params)
    spaces = []
    for n in names:
        k = params[n]
        spaces.append(k if isinstance(k, list) else KIND_TAGS[k])
    return [dict(zip(names, combo)) for combo in itertools.product(*spaces)]


def make_value(eng, path, name, kind, tag, fi=None):
    if kind in ("varpre", "varpre_small", "varchars"):
        if tag == "":
            return ()
        return tuple(make_value(eng, path, f"{name}{i}", "pre", t, fi) for i, t in enumerate(tag.split("|")))
    if tag.startswith("strs:"):
        k = int(tag.split(":")[1])
        return [SStr([Atom(z3.String(f"{name}{i}"), "opq", {"key": f"{name}{i}"})]) for i in range(k)]
    if tag == "strs+other":
        return [SStr([Atom(z3.String(f"{name}0"), "opq", {"key": f"{name}0"})]), Other(name + "1")]
    if tag == "rangestrs":
        n = z3.Int(f"{name}_len")
        path.assume(n >= 0)
        return fresh_maplist(eng, name, "rangestr", n)
    if tag == "charlist":
        n = z3.Int(f"{name}_len")
        path.assume(n >= 0)
        return fresh_maplist(eng, name, "char", n)
    if tag.startswith("Group:"):
        return new_group_shaped(eng, path, name, tag.split(":")[1])
    if kind in ("optname", "name") and tag == "str":
        return SStr([Atom(z3.String(f"{name}"), "name", {"key": name})])
    if tag in ("absranges", "abschars"):
        from .symex import AbsSet
        return AbsSet("range" if tag == "absranges" else "char", _fresh_mem(eng, name))
    if tag in ("True", "False"):
        return tag == "True"
    if tag.startswith("const:"):
        return int(tag.split(":")[1])
    if tag == "int_outside_2_16":
        v = z3.Int(name)
        path.assume(z3.Or(v < 2, v > 16))
        return v
    if tag.startswith("classobj"):
        # an arbitrary instance of the class layer: inferred type Class (or Token after the one-character collapse),
        # any negation flag, any verbose text
        tname = tag.split(":")[1] if ":" in tag else "Class"
        classes = eng.index.modules["pregex.core.classes"].classes
        base = classes["__Class"]
        sub = {"Any": "Any", "Word": "AnyWordChar", "ButWord": "AnyButWordChar"}.get(tname)
        if sub is not None:
            # an instance of a subclass the algebra treats specially
            base, tname = classes[sub], "Class"
        obj = new_pregex(eng, path, name, tname, cls=base)
        if sub in ("AnyWordChar", "AnyButWordChar"):
            path.fields(obj)[f"_{sub}__is_global"] = z3.Bool(f"global_{name}_{obj.oid}")
        if sub is not None:
            # invariant of these subclasses (their constructors fix the flag): Any and AnyWordChar are regular, AnyButWordChar negated
            fixed_neg = (sub == "AnyButWordChar")
        path.fields(obj)["_Class__is_negated"] = fixed_neg if sub is not None else z3.Bool(f"neg_{name}_{obj.oid}")
        path.fields(obj)["_Class__verbose"] = SStr([Atom(z3.String(f"verbose_{name}_{obj.oid}"), "opq", {"key": f"verbose_{name}"})])
        path.fields(obj)["_ghost_classarg"] = SStr([Atom(z3.String(f"classarg_{name}_{obj.oid}"), "opq", {"key": f"classarg_{name}"})])
        return obj
    if kind == "selfc" and tag.split("+")[0] == "Empty":
        # the matching API hands the pattern to re as it is: the empty pattern is a text of length 0 for it, not a constant of
        # the library's own code (constants are interpreted, R3; the instance's pattern goes to the R8 oracle)
        t = z3.String(f"pat_{name}_empty")
        path.assume(z3.Length(t) == 0)
        obj = new_pregex(eng, path, name, "Empty", text=SStr([Atom(t, "pat", {"type": "Empty", "label": name})]))
        if tag.endswith("+compiled"):
            path.fields(obj)["_Pregex__compiled"] = RM.CompiledV(path.fields(obj)["_Pregex__pattern"], FLAGS_MS)
        return obj
    if tag in TYPE_NAMES:
        return new_pregex(eng, path, name, tag)
    if tag.endswith("+compiled"):
        obj = new_pregex(eng, path, name, tag.split("+")[0])
        # cache invariant (Inv): compiled == COMPILE(EXPORT(pattern), MULTILINE|DOTALL)
        path.fields(obj)["_Pregex__compiled"] = RM.CompiledV(path.fields(obj)["_Pregex__pattern"], FLAGS_MS)
        return obj
    if tag == "new":
        return Obj(fi.cls, "pregex", label="self")
    if tag == "int":
        return z3.Int(f"{name}")
    if tag == "bool":
        return z3.Bool(f"{name}")
    if tag == "float":
        return z3.Real(f"{name}")
    if tag == "none":
        return None
    if tag == "other":
        return Other(name)
    if tag == "str":
        return SStr([Atom(z3.String(f"{name}"), "opq", {"key": name})])
    if tag in ("str0", "str1", "str2"):
        # a python string of length 0 / 1 / >= 2
        if tag == "str0":
            return ""
        t = z3.String(f"{name}")
        path.assume(z3.Length(t) == 1 if tag == "str1" else z3.Length(t) >= 2)
        return SStr([Atom(t, "opq", {"key": name, "lenclass": tag})])
    raise CheckerError(f"parameter tag {tag}")


def make_args(eng, path, fork, fi, contract):
    env = {}
    for name, kind in contract["params"].items():
        env[name] = make_value(eng, path, name, kind, fork[name], fi)
    return env


# ------------------------------------------------------------------------------------------------------
# spec builtins (symbolic)

def sb_EMPTY(eng, path, p):
    if not (isinstance(p, Obj) and p.kind == "pregex"):
        return False
    raw = path.resolved(path.fields(p).get("_Pregex__type"))
    if isinstance(raw, Unknown):
        return False            # an undetermined type is never Empty (undetermined results have a non-empty text)
    return path.getf(p, "_Pregex__type").name == "Empty"


def sb_TYPE(eng, path, p):
    return path.getf(p, "_Pregex__type").name


def sb_TEXT(eng, path, p):
    return path.getf(p, "_Pregex__pattern")


def sb_REPEATABLE(eng, path, p):
    return path.getf(p, "_Pregex__repeatable")


def sb_INT(eng, path, x):
    return is_intv(x)


def sb_BOOLV(eng, path, x):
    return is_boolv(x)


def sb_NONE(eng, path, x):
    return x is None


def sb_STRV(eng, path, x):
    return is_strv(x)


def sb_FLOATV(eng, path, x):
    return is_realv(x)


def sb_PREGEX(eng, path, x):
    return isinstance(x, Obj) and x.kind == "pregex"


def sb_NUMERIC(eng, path, x):
    return is_numv(x)


def sb_DECS(eng, path, n):
    if isinstance(n, int) and not isinstance(n, bool):
        return str(n)
    return SStr([Atom(DEC(n), "dec", n)])


def sb_SAME_TREE(eng, path, a, b):
    a = unfold_res(a)
    b = unfold_res(b)
    return respec.same_tree(eng, path, a, b)


def unfold_res(t):
    """a text that is exactly the result of an assumed contract stands for that contract's reference text"""
    while isinstance(t, SStr) and len(t.pieces) == 1 and not isinstance(t.pieces[0], str) \
            and t.pieces[0].tag == "res" and t.pieces[0].info.get("ref") is not None:
        t = t.pieces[0].info["ref"]
    return t


def sb_SAME_TEXT(eng, path, a, b):
    return eng.equal(a, b, path)


def sb_GROUPED(eng, path, p):
    """reference rendering of an operand as one unit: (?:P)   ('' for the empty pattern)"""
    t = path.getf(p, "_Pregex__pattern")
    if t == "":
        return ""
    return mkstr("(?:", t, ")")


def sb_IMPLIES(eng, path, a, b):
    ta = eng.truth(a, path)
    if ta is False:
        return True
    tb = eng.truth(b, path)
    if ta is True:
        return tb
    if tb is True:
        return True
    return simplify_bool(z3.Implies(zterm(ta), zterm(tb)))


def sb_ESC(eng, path, s):
    """the escaped form of a python string (specification of Pregex.__escape)"""
    if isinstance(s, str):
        out = s.replace("\\", "\\\\")
        for c in "^$()[]{}?+*.|/":
            out = out.replace(c, "\\" + c)
        return out
    # identity on strings that cannot contain an escaped character: decimal numerals, validated group names
    if all(isinstance(p, str) and not any(c in p for c in "\\^$()[]{}?+*.|/") or (not isinstance(p, str) and p.tag == "dec")
           for p in s.pieces):
        return s
    if len(s.pieces) == 1 and not isinstance(s.pieces[0], str) and s.pieces[0].tag in ("name", "opq"):
        from . import strre
        from . import rx2smt as R
        for lang, sym in strre._langs:
            if path.implied(sym(s.term())):
                meta = R.cs_of("\\^$()[]{}?+*.|/")
                ok, _, _ = R.included(lang, R.star(R.cs(R.cs_minus(strre.universe(), meta))), strre.universe())
                if ok:
                    return s
    key = str_key(s)
    lenclass = None
    for p in s.pieces:
        if not isinstance(p, str) and p.info and p.info.get("lenclass"):
            lenclass = p.info["lenclass"]
    cats = {"str1": [respec.ATOM], "str2": [respec.BRANCH], None: [respec.BRANCH, respec.ATOM]}[lenclass]
    of_key = None
    if len(s.pieces) == 1 and not isinstance(s.pieces[0], str) and isinstance(s.pieces[0].info, dict):
        of_key = s.pieces[0].info.get("key")
    return SStr([Atom(z3.Function("ESC", StrS, StrS)(s.term()), "esc", {"key": repr(key), "cats": cats, "of": s, "of_key": of_key})])


def sb_TYPEV(eng, path, p):
    """the inferred type as a value; an undetermined one stays undetermined until something depends on it (comparisons
    narrow it, see Engine.unknown_is)"""
    raw = path.fields(p).get("_Pregex__type")
    if isinstance(raw, Unknown):
        return path.resolved(raw)
    return path.getf(p, "_Pregex__type")


def sb_RULE(eng, path, p, idx):
    """the grouping rule the CODE's table gives for the operand's inferred type (read from the real class)"""
    rules = pregex_class(eng).pyobj._Pregex__groupping_rules
    raw = path.fields(p).get("_Pregex__type")
    if isinstance(raw, Unknown) and id(raw) not in path.forced:
        # an undetermined type is narrowed only as far as the rule needs: the types the class invariant allows are split
        # into those for which the rule says "group" and the others (two cases instead of one per type)
        cands = path.partial.get(id(raw), (raw, eng.unknown_type_candidates()))[1]
        yes = [t for t in cands if bool(rules[t][idx])]
        no = [t for t in cands if not bool(rules[t][idx])]
        if yes and no:
            i = path.choose([("rule applies", True), ("rule does not apply", True)], f"grouping rule {idx} of {p.label}")
            keep = yes if i == 0 else no
        else:
            keep = yes or no
        if len(keep) == 1:
            path.forced[id(raw)] = (raw, keep[0])
        else:
            path.partial[id(raw)] = (raw, keep)
        return bool(rules[keep[0]][idx])
    return bool(rules[path.getf(p, "_Pregex__type")][idx])


def sb_GRPTEXT(eng, path, p):
    """text of str(p.group()) as promised by group()'s contract"""
    q = "pregex.core.pre.Pregex.group"
    fi = eng.index.func(q)
    obj = eng.apply_contract(fi, eng.contracts[q], {"self": p, "is_case_insensitive": False}, None, path)
    return path.getf(obj, "_Pregex__pattern")


FIXEDW_F = z3.Function("FIXEDW", StrS, BoolS)
LBMSG = "look-behind requires fixed-width pattern"


_concrete_cache = {}


def sb_FIXEDW(eng, path, text):
    """R6: re accepts the text as a look-behind body iff it has one fixed width (uninterpreted; see B6)"""
    if isinstance(text, str):
        # a constant: `re` itself is asked (R6 executed, not assumed)
        from .common import native_fast
        key = ("fixedw", text)
        if key not in _concrete_cache:
            _concrete_cache[key] = bool(native_fast("fixed_width", {"text": text}))
        return _concrete_cache[key]
    return FIXEDW_F(str_term(text))


def ext_re_compile(eng, path, args, kwargs):
    """re.compile(text, flags) as an external with an assumed contract (R6, R8)"""
    text = args[0]
    if isinstance(text, SStr) and len(text.pieces) >= 2 and isinstance(text.pieces[0], str) and text.pieces[0].startswith("(?<=") \
            and isinstance(text.pieces[-1], str) and text.pieces[-1].endswith(")"):
        body = mkstr(text.pieces[0][4:], *text.pieces[1:-1], text.pieces[-1][:-1])
        w = FIXEDW_F(str_term(body))
        i = path.choose([("compiled", w), ("fixed-width error", z3.Not(w)), ("other re.error", w)], "re.compile")
        if i == 0:
            return Obj("re.Pattern", kind="compiled")
        e = Obj("error", kind="exception")
        if i == 1:
            path.setf(e, "msg", LBMSG, frame=False)
        else:
            m = eng.fresh("remsg", StrS)
            path.assume(m != z3.StringVal(LBMSG))
            path.setf(e, "msg", SStr([Atom(m, "opq")]), frame=False)
        raise RaiseExc("error", e, info="re.error from re.compile")
    if isinstance(text, SStr) and len(text.pieces) == 1 and not isinstance(text.pieces[0], str) and text.pieces[0].tag == "export":
        # B4 (assumed): compiling the exported text is compiling the pattern
        return RM.CompiledV(text.pieces[0].info, kwargs.get("flags", args[1] if len(args) > 1 else 0))
    raise Limitation("re.compile on a text that is neither a look-behind probe nor an exported pattern")


# ---- matching API (R5 / R8 oracle terms) -----------------------------------------------------------------
from . import remodel as RM
FLAGS_MS = 24   # re.MULTILINE | re.DOTALL


def sb_TXT(eng, path, source, is_path):
    """the text a matching method works on: the file's content (READ) when is_path, else the argument"""
    if isinstance(is_path, bool):
        return RM.read_file(eng, path, source) if is_path else source
    if path.branch(is_path, "is_path"):
        return RM.read_file(eng, path, source)
    return source


def sb_READ(eng, path, source):
    return RM.read_file(eng, path, source)


def sb_FINDITER(eng, path, p, text):
    return RM.finditer(eng, path, sb_TEXT(eng, path, p), text, FLAGS_MS)


def sb_NMATCHES(eng, path, p, text):
    return RM.Matches(sb_TEXT(eng, path, p), FLAGS_MS, text).n()


def sb_FULLMATCHES(eng, path, p, text):
    return RM.FULLMATCH(str_term(sb_TEXT(eng, path, p)), z3.IntVal(FLAGS_MS), str_term(text))


def sb_RESUB(eng, path, p, repl, text, count):
    return SStr([Atom(RM.SUB(str_term(sb_TEXT(eng, path, p)), str_term(repl), str_term(text), zterm(count), z3.IntVal(FLAGS_MS)), "resub")])


def sb_EXPORTED(eng, path, p):
    t = sb_TEXT(eng, path, p)
    return SStr([Atom(RM.EXPORT(str_term(t)), "export", t)])


def sb_COMPILED(eng, path, p):
    return RM.CompiledV(sb_TEXT(eng, path, p), FLAGS_MS)


def sb_COMPILED_FIELD(eng, path, p):
    return path.getf(p, "_Pregex__compiled")


def sb_SAME_COMPILED(eng, path, a, b):
    if a is None or b is None:
        return a is None and b is None
    if not isinstance(a, RM.CompiledV) or not isinstance(b, RM.CompiledV):
        return False
    return eng.and_(eng.equal(a.pat, b.pat, path), a.flags == b.flags)


def sb_SAMESEQ(eng, path, a, b):
    Ma, Mb = getattr(a, "M", None), getattr(b, "M", None)
    if Ma is None or Mb is None:
        return False
    return simplify_bool(z3.And(Ma.pat == Mb.pat, Ma.flags == Mb.flags, Ma.text == Mb.text))


def seq_view(v):
    if isinstance(v, (list, tuple)):
        items = list(v)
        return len(items), (lambda i: None), items
    return v.length, v.getter, None


def sb_SEQ_EQ(eng, path, a, b):
    """element-wise equality of two sequences (generic index = the map-loop's own index when there is one)"""
    if isinstance(a, (list, tuple)) and isinstance(b, (list, tuple)):
        return eng.equal(tuple(a), tuple(b), path)
    if not isinstance(a, SymSeq) or not isinstance(b, SymSeq):
        if isinstance(a, (list, tuple)) and isinstance(b, SymSeq):
            a, b = b, a
        if isinstance(a, SymSeq) and isinstance(b, (list, tuple)):
            conds = [a.length == len(b)]
            for i, x in enumerate(b):
                conds.append(box(a.getter(z3.IntVal(i))) == box(x))
            return simplify_bool(z3.And(*conds))
        return False
    k = getattr(a, "skolem", None)
    if k is None:
        k = getattr(b, "skolem", None)
    if k is None:
        k = eng.fresh("kk", IntS)
    ea = a.getter(k)
    eb = b.getter(k)
    from .loops import boxed_if_complex
    eq = eng.equal(boxed_if_complex(ea), boxed_if_complex(eb), path)
    return simplify_bool(z3.And(a.length == b.length, z3.Implies(z3.And(k >= 0, k < a.length), zterm(eq))))


def sb_LIST_EQ(eng, path, a, b):
    ta = a.term if hasattr(a, "term") else a
    tb = b.term if hasattr(b, "term") else b
    return simplify_bool(ta == tb)


_rec = {}


def cappos_entry(pat, fl, tx, k, ie, rel, j):
    """the j-th candidate entry of CAPPOS for match k: (kept?, none?, captured text, start, end) - ONE definition, used by
    the recursive function below and by the fold loop form (pvc/loops.py fold_for)"""
    a = (pat, fl, tx, k)
    none, gs, ge = RM.GNONE(*a, j), RM.GS(*a, j), RM.GE(*a, j)
    sval = PYSLICE(tx, gs, ge)
    keep = z3.Or(ie, none, sval != z3.StringVal(""))
    off = RM.MSTART(*a)
    shift = z3.And(rel, gs > -1)
    return keep, none, sval, z3.If(shift, gs - off, gs), z3.If(shift, ge - off, ge)


def rec_cappos():
    if "cp" in _rec:
        return _rec["cp"]
    CP = z3.RecFunction("CAPPOS", StrS, IntS, StrS, IntS, BoolS, BoolS, IntS, L)
    pat, tx = z3.Strings("cp_pat cp_tx")
    fl, k, j = z3.Ints("cp_fl cp_k cp_j")
    ie, rel = z3.Bools("cp_ie cp_rel")
    keep, none, sval, st_, en_ = cappos_entry(pat, fl, tx, k, ie, rel, j)
    grp = z3.If(none, V_NONE, V_STR(sval))
    entry = V_TUP3(grp, V_INT(st_), V_INT(en_))
    prev = CP(pat, fl, tx, k, ie, rel, j - 1)
    z3.RecAddDefinition(CP, [pat, fl, tx, k, ie, rel, j], z3.If(j <= 0, NIL, z3.If(keep, APP(prev, entry), prev)))
    _rec["cp"] = CP
    return CP


def rec_namedpos():
    if "np" in _rec:
        return _rec["np"]
    NP = z3.RecFunction("NAMEDPOS", StrS, IntS, StrS, IntS, BoolS, BoolS, IntS, L)
    pat, tx = z3.Strings("np_pat np_tx")
    fl, k, j = z3.Ints("np_fl np_k np_j")
    ie, rel = z3.Bools("np_ie np_rel")
    a = (pat, fl, tx, k)
    idx = RM.GINDEX(pat, j - 1)
    none, gs, ge = RM.GNONE(*a, idx), RM.GS(*a, idx), RM.GE(*a, idx)
    sval = PYSLICE(tx, gs, ge)
    grp = z3.If(none, V_NONE, V_STR(sval))
    keep = z3.Or(ie, none, sval != z3.StringVal(""))
    off = RM.MSTART(*a)
    shift = z3.And(rel, gs > -1)
    entry = V_TUP2(V_STR(RM.GNAME(pat, j - 1)),
                   V_TUP3(grp, V_INT(z3.If(shift, gs - off, gs)), V_INT(z3.If(shift, ge - off, ge))))
    prev = NP(pat, fl, tx, k, ie, rel, j - 1)
    z3.RecAddDefinition(NP, [pat, fl, tx, k, ie, rel, j], z3.If(j <= 0, NIL, z3.If(keep, APP(prev, entry), prev)))
    _rec["np"] = NP
    return NP


def rec_splits():
    if "sp" in _rec:
        return _rec["sp"]
    SP = z3.RecFunction("SPLITS", StrS, IntS, StrS, IntS, L)
    pat, tx = z3.Strings("sp_pat sp_tx")
    fl, j = z3.Ints("sp_fl sp_j")
    a = (pat, fl, tx)
    prevend = z3.If(j - 1 <= 0, z3.IntVal(0), RM.MEND(*a, j - 2))
    piece = V_STR(PYSLICE(tx, prevend, RM.MSTART(*a, j - 1)))
    z3.RecAddDefinition(SP, [pat, fl, tx, j], z3.If(j <= 0, NIL, APP(SP(pat, fl, tx, j - 1), piece)))
    _rec["sp"] = SP
    return SP


def rec_capsplit():
    """state of split_by_capture after the matches 0..k-1 and the groups 1..j of match k: the pieces so far (CSL) and the
    position where the next piece starts (CSI); a group takes part iff it participated in the match and (include_empty or
    its text is not empty)"""
    if "cs" in _rec:
        return _rec["cs"]
    CSL = z3.RecFunction("CAPSPLIT_LIST", StrS, IntS, StrS, BoolS, IntS, IntS, L)
    CSI = z3.RecFunction("CAPSPLIT_IDX", StrS, IntS, StrS, BoolS, IntS, IntS, IntS)
    pat, tx = z3.Strings("cs_pat cs_tx")
    fl, k, j = z3.Ints("cs_fl cs_k cs_j")
    ie = z3.Bool("cs_ie")
    a = (pat, fl, tx, k)
    ng = RM.NGROUPS(pat)
    none, gs, ge = RM.GNONE(*a, j), RM.GS(*a, j), RM.GE(*a, j)
    takes = z3.And(z3.Not(none), z3.Or(ie, PYSLICE(tx, gs, ge) != z3.StringVal("")))
    pl, pi = CSL(pat, fl, tx, ie, k, j - 1), CSI(pat, fl, tx, ie, k, j - 1)
    z3.RecAddDefinition(CSL, [pat, fl, tx, ie, k, j],
                        z3.If(j <= 0, z3.If(k <= 0, NIL, CSL(pat, fl, tx, ie, k - 1, ng)),
                              z3.If(takes, APP(pl, V_STR(PYSLICE(tx, pi, z3.If(gs < pi, pi, gs)))), pl)))      # text[pi:gs]
    z3.RecAddDefinition(CSI, [pat, fl, tx, ie, k, j],
                        z3.If(j <= 0, z3.If(k <= 0, z3.IntVal(0), CSI(pat, fl, tx, ie, k - 1, ng)),
                              z3.If(takes, ge, pi)))
    _rec["cs"] = (CSL, CSI)
    return _rec["cs"]


def _csargs(eng, path, p, text, ie, k, j):
    return (str_term(sb_TEXT(eng, path, p)), z3.IntVal(FLAGS_MS), str_term(text), zterm(ie), zterm(k), zterm(j))


def sb_CAPSPLIT_LIST(eng, path, p, text, ie, k, j):
    return TermList(rec_capsplit()[0](*_csargs(eng, path, p, text, ie, k, j)))


def sb_CAPSPLIT_IDX(eng, path, p, text, ie, k, j):
    return rec_capsplit()[1](*_csargs(eng, path, p, text, ie, k, j))


def sb_SPLIT_BY_CAPTURE_SPEC(eng, path, p, text, ie):
    """the pieces of the text between the spans of the captures that take part, in order, and the rest of the text"""
    n = RM.NMATCH(str_term(sb_TEXT(eng, path, p)), z3.IntVal(FLAGS_MS), str_term(text))
    a = _csargs(eng, path, p, text, ie, n, 0)
    t = str_term(text)
    return TermList(APP(rec_capsplit()[0](*a), V_STR(PYSLICE(t, rec_capsplit()[1](*a), z3.Length(t)))))


def _margs(eng, path, m):
    if not isinstance(m, RM.MatchV):
        raise Limitation("CAPPOS of a non-match value")
    return m.M.args() + (m.k,)


def sb_CAPPOS(eng, path, m, include_empty, relative, j):
    return TermList(rec_cappos()(*_margs(eng, path, m), zterm(include_empty), zterm(relative), zterm(j)))


def sb_NAMEDPOS(eng, path, m, include_empty, relative, j):
    from .symex import TermDict
    return TermDict(rec_namedpos()(*_margs(eng, path, m), zterm(include_empty), zterm(relative), zterm(j)))


def sb_NGROUPS(eng, path, p):
    return RM.NGROUPS(str_term(sb_TEXT(eng, path, p)))


def sb_NNAMED(eng, path, p):
    return RM.NNAMED(str_term(sb_TEXT(eng, path, p)))


def sb_SPLITS(eng, path, p, text, j):
    return TermList(rec_splits()(str_term(sb_TEXT(eng, path, p)), z3.IntVal(FLAGS_MS), str_term(text), zterm(j)))


def sb_PREVEND(eng, path, p, text, j):
    a = (str_term(sb_TEXT(eng, path, p)), z3.IntVal(FLAGS_MS), str_term(text))
    j = zterm(j)
    return z3.If(j <= 0, z3.IntVal(0), RM.MEND(*a, j - 1))


def sb_APPENDED(eng, path, lst, x):
    return TermList(APP(lst.term, box(x)))


# ---- groups / wrappers ------------------------------------------------------------------------------------

def sb_SHAPE(eng, path, p):
    info = getattr(p, "info", None) or {}
    if "shape" not in info:
        raise Limitation("shape of a group-typed operand is not known on this path")
    return info["shape"]


def sb_BODY(eng, path, p):
    return p.info["body"]


def sb_GNAME(eng, path, p):
    return p.info["gname"]


def sb_VALIDNAME(eng, path, name):
    """a capturing-group name the library accepts: an identifier-like word (documented rule [A-Za-z_]\\w*)"""
    from . import strre
    if isinstance(name, str):
        import re as _re
        return _re.fullmatch(NAME_RX, name) is not None
    return strre.lang_pred(eng, name_lang())(str_term(name))


BREF_RX = "[A-Za-z_][A-Za-z_0-9]*"


def sb_BREFNAME(eng, path, name):
    """a name Backreference accepts (documented: ASCII identifier)"""
    from . import strre
    if isinstance(name, str):
        import re as _re
        return _re.fullmatch(BREF_RX, name) is not None
    return strre.lang_pred(eng, strre.plain_regex(BREF_RX))(str_term(name))


def sb_RAWTEXT(eng, path, x):
    """str(x): the string itself, or a Pregex's pattern"""
    if isinstance(x, Obj):
        return path.getf(x, "_Pregex__pattern")
    return x


def sb_ORD(eng, path, s):
    if isinstance(s, str):
        return ord(s)
    return z3.StrToCode(str_term(s))


def sb_CLASSARG(eng, path, p):
    """ghost: the bracket text this class instance handed to __Class.__init__"""
    return path.getf(p, "_ghost_classarg")


def sb_NEGATED(eng, path, p):
    return path.getf(p, "_Class__is_negated")


def sb_VERBOSE(eng, path, p):
    return path.getf(p, "_Class__verbose")


def sb_CALLQ(eng, path, qualname, *args):
    """the function `qualname` of the package applied to the arguments, by its contract (or on constants: executed)"""
    from .symex import Frame
    return eng.call_function(eng.index.func(qualname), list(args), {}, Frame(None, {}, None, eng.spec_module), path)


def sb_PAT(eng, path, text):
    """Pregex(text, escape=False) for a constant reference text"""
    ci = eng.index.modules["pregex.core.pre"].classes["Pregex"]
    return concrete_construct(eng, ci, [text, False], {}, None, path)


def sb_INTB(eng, path, x):
    """what isinstance(x, int) accepts: an int or a bool"""
    return is_intv(x) or is_boolv(x)


def sb_NUMERAL_DIGITS(eng, path, base):
    """the digit class of a base, as the real code builds it: Numeral(base, 1, 1, is_extensible=True)"""
    if not isinstance(base, int) or isinstance(base, bool):
        raise Limitation("NUMERAL_DIGITS of a symbolic base")
    ci = eng.index.modules["pregex.meta.essentials"].classes["Numeral"]
    return concrete_construct(eng, ci, [base, 1, 1, True], {}, None, path)


def sb_NEW(eng, path, cname, *args):
    """construct an instance of a public class of the package from (constant) arguments, as the code would"""
    from .symex import ClassRef, Frame
    for mname in ("pregex.core.classes", "pregex.core.assertions", "pregex.core.tokens", "pregex.core.operators",
                  "pregex.core.quantifiers", "pregex.core.groups", "pregex.meta.essentials"):
        ci = eng.index.modules[mname].classes.get(cname) if mname in eng.index.modules else None
        if ci is not None:
            return eng.construct(ClassRef(ci.name, ci, ci.pyobj), list(args), {}, Frame(None, {}, None, eng.spec_module), path)
    raise Limitation(f"NEW({cname})")


def sb_ISGLOBALWORD(eng, path, x):
    """x is AnyWordChar / AnyButWordChar built with is_global=True"""
    cl = eng.index.modules["pregex.core.classes"].classes
    if not (isinstance(x, Obj) and hasattr(x.cls, "is_subclass_of")):
        return False
    for n in ("AnyWordChar", "AnyButWordChar"):
        if x.cls.is_subclass_of(cl[n]):
            return path.getf(x, f"_{n}__is_global")
    return False


def sb_ISANY(eng, path, x):
    a = eng.index.modules["pregex.core.classes"].classes["Any"]
    return isinstance(x, Obj) and hasattr(x.cls, "is_subclass_of") and x.cls.is_subclass_of(a)


def sb_ISCLS(eng, path, x):
    """x is an instance of the class layer (__Class)"""
    base = eng.index.modules["pregex.core.classes"].classes["__Class"]
    return isinstance(x, Obj) and x.kind == "pregex" and hasattr(x.cls, "is_subclass_of") and x.cls.is_subclass_of(base)


def sb_GHOSTOP(eng, path, p):
    """ghost: (name of the core operation, left operand, right operand) that produced this class"""
    return path.getf(p, "_ghost_op")


def ret_class_op(eng, path, env, fi, contract):
    """__or / __sub (assumed): an arbitrary class with the negation flag of the operands; the operation and its operands, in
    order, are remembered (ghost)"""
    base = eng.index.modules["pregex.core.classes"].classes["__Class"]
    obj = new_pregex(eng, path, contract["op"], "Class", cls=base)
    f = path.fields(obj)
    f["_Pregex__type"] = Unknown("inferred type of a class result")      # Class, or Token after the one-character collapse
    f["_Class__is_negated"] = path.getf(env["pre1"], "_Class__is_negated")
    f["_Class__verbose"] = SStr([Atom(z3.String(f"verbose_{contract['op']}_{obj.oid}"), "opq", {"key": f"verbose{obj.oid}"})])
    f["_ghost_op"] = (contract["op"], env["pre1"], env["pre2"])
    f["_ghost_classarg"] = SStr([Atom(z3.String(f"classarg_{contract['op']}_{obj.oid}"), "opq", {"key": f"classarg{obj.oid}"})])
    return obj


def ret_class_wrapped(eng, path, env, fi, contract):
    """__or__ / __sub__ / ... used as callees: an arbitrary instance of the class layer carrying the receiver's negation flag
    (their proved post-condition); __invert__: the opposite flag"""
    base = eng.index.modules["pregex.core.classes"].classes["__Class"]
    obj = new_pregex(eng, path, fi.qualname.split(".")[-1].strip("_"), "Class", cls=base)
    f = path.fields(obj)
    f["_Pregex__type"] = Unknown("inferred type of a class result")
    neg = path.getf(env["self"], "_Class__is_negated")
    f["_Class__is_negated"] = eng.not_(neg) if contract.get("flips") else neg
    f["_Class__verbose"] = SStr([Atom(z3.String(f"verbose_res_{obj.oid}"), "opq", {"key": f"verbose{obj.oid}"})])
    f["_ghost_classarg"] = SStr([Atom(z3.String(f"classarg_res_{obj.oid}"), "opq", {"key": f"classarg{obj.oid}"})])
    return obj


def ret_class_ctor(eng, path, env, fi, contract):
    """a proved class constructor used as a callee: the instance is a class with the bracket text / flag its contract states"""
    from .vc import eval_spec
    me = env["self"]
    src = new_pregex(eng, path, "cls", "Class")
    path.fields(me).update(path.fields(src))
    path.fields(me)["_Pregex__type"] = Unknown("inferred type of a class")
    path.fields(me)["_Class__is_negated"] = contract["neg"]
    path.fields(me)["_ghost_classarg"] = eval_spec(eng, contract["value"], env, path, fi)
    path.fields(me)["_Class__verbose"] = SStr([Atom(z3.String(f"verbose_ctor_{me.oid}"), "opq", {"key": f"verbose{me.oid}"})])
    for fld, expr in (contract.get("fields") or {}).items():
        path.fields(me)[fld] = eval_spec(eng, expr, env, path, fi)
    return None


def ret_word_invert(eng, path, env, fi, contract):
    """~AnyWordChar(g) / ~AnyButWordChar(g) used as callees: an instance of the other class with the same is_global"""
    classes = eng.index.modules["pregex.core.classes"].classes
    me = env["self"]
    mine = "AnyButWordChar" if contract["other"] == "AnyWordChar" else "AnyWordChar"
    obj = make_value(eng, path, "inverted", "classobj", "classobj:" + ("Word" if contract["other"] == "AnyWordChar" else "ButWord"))
    path.fields(obj)[f"_{contract['other']}__is_global"] = path.getf(me, f"_{mine}__is_global")
    path.fields(obj)["_ghost_classarg"] = "[a-zA-Z0-9_]" if contract["other"] == "AnyWordChar" else "[^a-zA-Z0-9_]"
    return obj


def sb_LISTV(eng, path, x):
    return isinstance(x, (list, MapList, TermList))


def sb_TP(eng, path, x):
    """spec-level _to_pregex (x must not be BADPRE)"""
    q = "pregex.core.pre.Pregex._to_pregex"
    return eng.apply_contract(eng.index.func(q), eng.contracts[q], {"pre": x}, None, path)


def sb_METHOD(eng, path, obj, name, *args):
    """the method form: obj.name(*args), by the method's contract"""
    from .symex import Frame
    return eng.call_method(obj, name, list(args), {}, Frame(None, {}, None, eng.spec_module), path)


def _callee_env(eng, qualshort, selfobj, args):
    q = "pregex.core.pre.Pregex." + qualshort
    c = eng.contracts[q]
    names = [n for n in c["params"] if n != "self"]
    env = {"self": selfobj}
    fi = eng.index.func(q)
    # bind positionally, fill defaults from the real signature
    full = eng.bind_args(fi, [selfobj] + list(args), {}, None, path_holder[0])
    return q, c, full


path_holder = [None]


def sb_CALLEE_RAISES(eng, path, qualshort, exc, selfobj, *args):
    from .vc import eval_spec
    path_holder[0] = path
    q, c, env = _callee_env(eng, qualshort, selfobj, args)
    cond = c.get("raises", {}).get(exc)
    if cond is None:
        return False
    return eng.truth(eval_spec(eng, cond, env, path, eng.index.func(q)), path)


def sb_FIRST_EXC(eng, path, qualshort, selfobj, *args):
    from .vc import eval_spec
    path_holder[0] = path
    q, c, env = _callee_env(eng, qualshort, selfobj, args)
    for exc, cond in c.get("raises", {}).items():
        t = eng.truth(eval_spec(eng, cond, env, path, eng.index.func(q)), path)
        if path.branch(t, f"first-exc {qualshort} {exc}"):
            return exc
    return ""


def infer_pair(eng, text):
    key = ("infer", str_key(text))
    if key not in eng.memo_results:
        eng.memo_results[key] = (Unknown("inferred type of " + repr(text)[:40]), Unknown("inferred flag of " + repr(text)[:40]))
    return eng.memo_results[key]


def opaque_unknown(v):
    return v


def sb_INFERRED(eng, path, p):
    """(type, repeatable) of p are what __infer_type returned for p's text"""
    f = path.fields(p)
    t, r = infer_pair(eng, f["_Pregex__pattern"])
    return f["_Pregex__type"] is t and f["_Pregex__repeatable"] is r


# ---- interval views (class algebra, G8) --------------------------------------------------------------------
from .values import as_pair, fresh_maplist, range_string, MapList as _ML
from .symex import SymSet as _SymSet, CharPair as _CP, AbsSet as _AbsSet

MAXCP = 0x10FFFF


class View:
    """a set of code points given by a membership predicate"""

    def __init__(self, mem):
        self.mem = mem


def _seq_of(lst):
    if isinstance(lst, _SymSet):
        lst = lst.seq
    if isinstance(lst, (list, tuple)):
        items = list(lst)
        return z3.IntVal(len(items)), (lambda k, items=items: ite_list(k, items))
    return lst.length, lst.getter


def ite_list(k, items):
    from .symex import merge_values
    v = items[-1]
    for i in range(len(items) - 2, -1, -1):
        v = merge_values(zterm(k) == i, items[i], v)
    return v


def _defined_view(eng, path, lst, body_of, tag):
    """a view with its own membership predicate  mem_L(x)  and the definitional axiom
         forall x. mem_L(x) <=> exists k. 0 <= k < len(L) and body(L[k], x)
    (sets as predicates with triggers: instantiation-friendly for the solvers' E-matching)"""
    n, g = _seq_of(lst)
    nz = zterm(n)
    if z3.is_int_value(nz) and nz.as_long() == 0:
        return View(lambda x: z3.BoolVal(False))
    holder = lst.seq if isinstance(lst, _SymSet) else lst
    cache = getattr(holder, "_views", None)
    if cache is None:
        try:
            holder._views = cache = {}
        except AttributeError:
            cache = {}
    if tag in cache:
        return cache[tag]
    sym = z3.Function(f"mem_{tag}!{eng.fresh_id()}", IntS, BoolS)
    x = z3.Int("x!def")
    k = z3.Int("k!def")
    body = body_of(g(k), x)
    path.assume(z3.ForAll([x], sym(x) == z3.Exists([k], z3.And(k >= 0, k < nz, body)), patterns=[sym(x)]))
    v = View(lambda y, sym=sym: sym(y))
    cache[tag] = v
    return v


MEMTXT = z3.Function("MEMTXT", StrS, IntS, BoolS)       # code point x is listed by the bracket text t


def sb_TV(eng, path, text):
    """the set of code points a bracket text lists (for '[^...]': the excluded ones) - uninterpreted: what a bracket text
    means is the text layer's business (assumed contracts of __extract_classes / __modify_classes / __process)"""
    t = str_term(text)
    return View(lambda x, t=t: MEMTXT(t, x))


def sb_RV(eng, path, lst):
    """view of a list / set of ranges (pairs, 2-lists or range strings)"""
    if isinstance(lst, _AbsSet):
        if lst.kind not in ("range", "pair"):
            raise Limitation("RV of an abstract set that is not a set of ranges")
        return View(lst.mem)
    def body(el, x):
        lo, hi = as_pair(el)
        return z3.And(lo <= x, x <= hi)
    return _defined_view(eng, path, lst, body, "r")


def sb_CV(eng, path, lst):
    """view of a list / set of single characters"""
    if isinstance(lst, _AbsSet):
        if lst.kind != "char":
            raise Limitation("CV of an abstract set that is not a set of characters")
        return View(lst.mem)
    return _defined_view(eng, path, lst, lambda el, x: zterm(el.code) == x, "c")


def sb_IV(eng, path, lo, hi):
    return View(lambda x, lo=lo, hi=hi: z3.And(zterm(lo.code) <= x, x <= zterm(hi.code)))


def sb_ELV(eng, path, lst, k):
    """view of the single range lst[k]"""
    n, g = _seq_of(lst)
    lo, hi = as_pair(g(zterm(k)))
    return View(lambda x, lo=lo, hi=hi: z3.And(lo <= x, x <= hi))


def sb_VU(eng, path, *vs):
    return View(lambda x, vs=vs: z3.Or(*[v.mem(x) for v in vs]))


def sb_VM(eng, path, a, b):
    return View(lambda x, a=a, b=b: z3.And(a.mem(x), z3.Not(b.mem(x))))


def sb_VEQ(eng, path, a, b):
    x = z3.Int("x!veq")
    return z3.ForAll([x], a.mem(x) == b.mem(x))


def sb_VDISJ(eng, path, a, b):
    x = z3.Int("x!vd")
    return z3.ForAll([x], z3.Not(z3.And(a.mem(x), b.mem(x))))


def sb_VEMPTY(eng, path, a):
    x = z3.Int("x!ve")
    return z3.ForAll([x], z3.Not(a.mem(x)))


def sb_WFR(eng, path, lst):
    """every element of a range list is a well-formed range of code points"""
    if isinstance(lst, _AbsSet):
        return lst.kind in ("range", "pair")       # representation invariant of abstract sets: their items are well formed
    n, g = _seq_of(lst)
    if z3.is_int_value(zterm(n)) and zterm(n).as_long() == 0:
        return True
    k = z3.Int("k!wf")
    lo, hi = as_pair(g(k))
    return z3.ForAll([k], z3.Implies(z3.And(k >= 0, k < n), z3.And(0 <= lo, lo <= hi, hi <= MAXCP)))


def sb_WFC(eng, path, lst):
    if isinstance(lst, _AbsSet):
        return lst.kind == "char"
    n, g = _seq_of(lst)
    if z3.is_int_value(zterm(n)) and zterm(n).as_long() == 0:
        return True
    k = z3.Int("k!wfc")
    c = zterm(g(k).code)
    return z3.ForAll([k], z3.Implies(z3.And(k >= 0, k < n), z3.And(0 <= c, c <= MAXCP)))


def sb_LSAME(eng, path, a, b):
    """two lists are element-wise equal (ranges compared by end points, characters by code)"""
    na, ga = _seq_of(a)
    nb, gb = _seq_of(b)
    k = z3.Int("k!ls")
    ea, eb = ga(k), gb(k)
    try:
        (a1, a2), (b1, b2) = as_pair(ea), as_pair(eb)
        eq = z3.And(a1 == b1, a2 == b2)
    except TypeError:
        eq = zterm(ea.code) == zterm(eb.code)
    return z3.And(zterm(na) == zterm(nb), z3.ForAll([k], z3.Implies(z3.And(k >= 0, k < zterm(na)), eq)))


def sb_PREFIX_DISJ(eng, path, lst, upto, other):
    """every range lst[k], k < upto, is disjoint from the view `other`"""
    n, g = _seq_of(lst)
    k = z3.Int("k!pd")
    x = z3.Int("x!pd")
    lo, hi = as_pair(g(k))
    return z3.ForAll([k, x], z3.Implies(z3.And(k >= 0, k < zterm(upto), lo <= x, x <= hi), z3.Not(other.mem(x))))


def sb_PREFIXV(eng, path, lst, upto):
    """view of the ranges lst[0 .. upto)"""
    n, g = _seq_of(lst)
    u = zterm(upto)

    def mem(x, g=g, u=u):
        k = z3.Int("k!pv")
        lo, hi = as_pair(g(k))
        return z3.Exists([k], z3.And(k >= 0, k < u, lo <= x, x <= hi))
    return View(mem)


def sb_CPREFIX_OUT(eng, path, lst, upto, lo, hi):
    """every character lst[k], k < upto, lies outside lo..hi"""
    n, g = _seq_of(lst)
    k = z3.Int("k!cpo")
    c = zterm(g(k).code)
    return z3.ForAll([k], z3.Implies(z3.And(k >= 0, k < zterm(upto)), z3.Not(z3.And(zterm(lo.code) <= c, c <= zterm(hi.code)))))


def sb_RDISJ(eng, path, a, upto_a, b, upto_b):
    """every range a[k], k < upto_a, is disjoint from every range b[m], m < upto_b (element-wise, no views)"""
    na, ga = _seq_of(a)
    nb, gb = _seq_of(b)
    k, m = z3.Int("k!rd"), z3.Int("m!rd")
    lo1, hi1 = as_pair(ga(k))
    lo2, hi2 = as_pair(gb(m))
    return z3.ForAll([k, m], z3.Implies(z3.And(k >= 0, k < zterm(upto_a), m >= 0, m < zterm(upto_b)), z3.Or(hi1 < lo2, hi2 < lo1)))


def sb_RDISJ_ONE(eng, path, b, upto_b, lo, hi):
    """every range b[m], m < upto_b, is disjoint from lo..hi"""
    nb, gb = _seq_of(b)
    m = z3.Int("m!rd1")
    lo2, hi2 = as_pair(gb(m))
    return z3.ForAll([m], z3.Implies(z3.And(m >= 0, m < zterm(upto_b)), z3.Or(zterm(hi.code) < lo2, hi2 < zterm(lo.code))))


def _run_parts(el):
    from .symex import as_run
    r = as_run(el)
    return zterm(r.lo.code), zterm(r.hi.code), zterm(r.n)


def sb_RUNV(eng, path, lst):
    """view of a work list of runs: a one-character item denotes that character, a two-character item lo+hi the run lo..hi"""
    def body(el, x):
        lo, hi, n = _run_parts(el)
        return z3.And(lo <= x, x <= hi)
    return _defined_view(eng, path, lst, body, "run")


def sb_PREFIXRUNV(eng, path, lst, upto):
    n, g = _seq_of(lst)
    u = zterm(upto)

    def mem(x, g=g, u=u):
        k = z3.Int("k!prv")
        lo, hi, nn = _run_parts(g(k))
        return z3.Exists([k], z3.And(k >= 0, k < u, lo <= x, x <= hi))
    return View(mem)


def sb_WFRUN(eng, path, lst):
    """every item is one character (n == 1, lo == hi) or two different characters in increasing order (n == 2, lo < hi)"""
    n, g = _seq_of(lst)
    if z3.is_int_value(zterm(n)) and zterm(n).as_long() == 0:
        return True
    k = z3.Int("k!wfrun")
    lo, hi, nn = _run_parts(g(k))
    return z3.ForAll([k], z3.Implies(z3.And(k >= 0, k < zterm(n)),
                                     z3.And(0 <= lo, hi <= MAXCP, z3.Or(z3.And(nn == 1, lo == hi), z3.And(nn == 2, lo < hi)))))


def sb_RSAME(eng, path, a, b):
    """two work lists of runs are element-wise equal"""
    na, ga = _seq_of(a)
    nb, gb = _seq_of(b)
    k = z3.Int("k!rs")
    a1, a2, a3 = _run_parts(ga(k))
    b1, b2, b3 = _run_parts(gb(k))
    return z3.And(zterm(na) == zterm(nb), z3.ForAll([k], z3.Implies(z3.And(k >= 0, k < zterm(na)), z3.And(a1 == b1, a2 == b2, a3 == b3))))


def sb_EV(eng, path, s):
    """what an abstract item set denotes (any kind)"""
    return View(_AbsSet.of(eng, path, s).mem)


def sb_CLIST_OUT(eng, path, chars, ranges, upto):
    """every character of the list lies outside every range ranges[k], k < upto (element-wise, no views)"""
    n, g = _seq_of(chars)
    nr, gr = _seq_of(ranges)
    m, k = z3.Int("m!clo"), z3.Int("k!clo")
    c = zterm(g(m).code)
    lo, hi = as_pair(gr(k))
    return z3.ForAll([m, k], z3.Implies(z3.And(m >= 0, m < zterm(n), k >= 0, k < zterm(upto)), z3.Not(z3.And(lo <= c, c <= hi))))


def sb_CPREFIXV(eng, path, lst, upto):
    """view of the characters lst[0 .. upto)"""
    n, g = _seq_of(lst)
    u = zterm(upto)

    def mem(x, g=g, u=u):
        k = z3.Int("k!cpv")
        return z3.Exists([k], z3.And(k >= 0, k < u, zterm(g(k).code) == x))
    return View(mem)


def sb_LEN(eng, path, lst):
    n, g = _seq_of(lst)
    return n


def sb_CODE(eng, path, c):
    return c.code


SPEC_BUILTINS = {k[3:]: v for k, v in list(globals().items()) if k.startswith("sb_")}


# ------------------------------------------------------------------------------------------------------
# result constructors for assumed contracts ("returns" entries of the contract table)

def ret_pregex(eng, path, env, fi, contract):
    """fresh Pregex value; its text is only known up to tree-equality with the contract's reference text"""
    from .vc import eval_spec
    c = contract
    same = c.get("returns_self_if")
    if same is not None:
        cond = eng.truth(eval_spec(eng, same, env, path, fi), path)
        if path.branch(cond, f"returns-self {fi.qualname}"):
            # the contract promises the same TEXT (not object identity): a fresh value with the operand's fields
            src = env["self"]
            key = (fi.qualname, "copy", src.oid)
            if key in path.memo:
                return path.memo[key]
            obj = Obj(pregex_class(eng), "pregex", label="copy:" + str(src.label))
            path.fields(obj).update({k: v for k, v in path.fields(src).items()})
            path.fields(obj)["_Pregex__compiled"] = None
            obj.info = getattr(src, "info", None)
            path.memo[key] = obj
            return obj
    ref = eval_spec(eng, c["ref"], env, path, fi) if c.get("ref") else None
    key = (fi.qualname, tuple(value_key(v, path, fi.qualname.startswith('pregex.core.classes.')) for v in env.values()))
    if key in path.memo:
        return path.memo[key]
    obj = Obj(pregex_class(eng), "pregex", label="res:" + fi.qualname.split(".")[-1])
    info = {"key": repr(key), "ref": ref, "oid": obj.oid, "atomic": bool(c.get("atomic"))}
    f = path.fields(obj)
    if ref == "":
        f["_Pregex__pattern"] = ""
        f["_Pregex__type"] = type_enum(eng, "Empty")
    else:
        f["_Pregex__pattern"] = SStr([Atom(z3.String(f"res_{obj.oid}"), "res", info)])
        f["_Pregex__type"] = Unknown("type of " + fi.qualname + " result")
    f["_Pregex__repeatable"] = Unknown("repeatable flag of " + fi.qualname + " result")
    f["_Pregex__compiled"] = None
    path.memo[key] = obj
    return obj


def value_key(v, path=None, class_layer=False):
    """identity of a value for the memo of contract results: Pregex values are identified by their CONTENT (text, inferred
    type, flag, class-layer fields) - the library's operations are functions of the operands' fields (C20), so two
    instances with the same content have the same results"""
    if isinstance(v, Obj):
        ck = getattr(v, "ckey", None)
        if ck is not None:
            return ck          # a value computed from constants by the real code: equal content, equal key
        if path is not None and v.kind == "pregex":
            f = path.fields(v)
            if "_Pregex__pattern" in f:
                def fk(x):
                    if isinstance(x, Unknown):
                        return ("unknown", id(x))
                    if is_sym(x):
                        return ("z3", x.sexpr())
                    if isinstance(x, SStr) or isinstance(x, str):
                        return str_key(x)
                    return getattr(x, "name", repr(x))
                ks = ("_Pregex__pattern", "_Pregex__type", "_Pregex__repeatable")
                if class_layer:
                    ks += ("_Class__is_negated", "_Class__verbose")      # only the class algebra looks at these
                return ("pobj",) + tuple(fk(f.get(k)) for k in ks)
        return ("obj", v.oid)
    if is_sym(v):
        return ("z3", v.sexpr())
    if isinstance(v, SStr):
        return v.key()
    if isinstance(v, (tuple, list)):
        return tuple(value_key(x, path, class_layer) for x in v)
    return repr(v)


def ret_expr(eng, path, env, fi, contract):
    from .vc import eval_spec
    return eval_spec(eng, contract["result"], env, path, fi)


def ret_none(eng, path, env, fi, contract):
    return None


def ret_infer(eng, path, env, fi, contract):
    return infer_pair(eng, env["pattern"])


def ret_initpregex(eng, path, env, fi, contract):
    ret_newpregex(eng, path, env, fi, contract, obj=env["self"])
    return None


def ret_newpregex(eng, path, env, fi, contract, obj=None):
    """Pregex(pattern, escape): text = ESC(pattern) | pattern; the inferred type is what Inv / the assumed contract of
    __infer_type gives: '' -> Empty, an escaped 1-character literal -> Token, a longer escaped literal -> Other"""
    pat, esc = env["pattern"], env["escape"]
    if not isinstance(esc, bool):
        esc = path.branch(esc, "escape flag")
    text = sb_ESC(eng, path, pat) if esc else pat
    if obj is None:
        mkey = ("new", str_key(text) if is_strv(text) else repr(text))
        if mkey in path.memo:
            return path.memo[mkey]
        obj = Obj(pregex_class(eng), "pregex", label="new")
        path.memo[mkey] = obj
    f = path.fields(obj)
    f["_Pregex__pattern"] = text
    f["_Pregex__compiled"] = None
    f["_Pregex__repeatable"] = Unknown("repeatable flag of a constructed value")
    f["_Pregex__type"] = Unknown("type of a constructed value")
    if isinstance(text, str):
        # a concrete text: the real __infer_type is simply run on it
        ty, rp = pregex_class(eng).pyobj._Pregex__infer_type(text)
        f["_Pregex__type"], f["_Pregex__repeatable"] = ty, bool(rp)
    elif isinstance(text, SStr) and len(text.pieces) == 1 and not isinstance(text.pieces[0], str) and text.pieces[0].tag == "esc":
        cats = text.pieces[0].info["cats"]
        if cats == [respec.ATOM]:
            f["_Pregex__type"] = type_enum(eng, "Token")
            f["_Pregex__repeatable"] = True
        elif cats == [respec.BRANCH]:
            f["_Pregex__type"] = type_enum(eng, "Other")
            f["_Pregex__repeatable"] = True
        text.pieces[0].info["oid"] = obj.oid
    return obj


def ret_to_pregex(eng, path, env, fi, contract):
    pre = env["pre"]
    if isinstance(pre, Obj) and pre.kind == "pregex":
        return pre
    return ret_newpregex(eng, path, {"pattern": pre, "escape": True}, fi, contract)


def ret_setcompiled(eng, path, env, fi, contract):
    path.setf(env["self"], "_Pregex__compiled", RM.CompiledV(sb_TEXT(eng, path, env["self"]), FLAGS_MS))
    return None


def ret_split_range(eng, path, env, fi, contract):
    """__split_range('a-z') == ['a', 'z'] for two single characters (assumed contract; bounded-checked)"""
    from .symex import CharV, CharPair
    lo, hi = as_pair(env["pattern"])
    return CharPair(CharV(lo), CharV(hi), mutable=True)


def ret_wrapped_init(eng, path, env, fi, contract):
    """a class form used as a callee: the new object takes the fields of the method-form result its contract names"""
    from .vc import eval_spec
    src = eval_spec(eng, contract["value"], env, path, fi)
    me = env["self"]
    if isinstance(src, Obj):
        path.fields(me).update({k: v for k, v in path.fields(src).items()})
        path.fields(me)["_Pregex__compiled"] = None
        me.info = getattr(src, "info", None)
    else:
        ret_newpregex(eng, path, {"pattern": src, "escape": False}, fi, contract, obj=me)
    return None


def ret_opaque_other(eng, path, env, fi, contract):
    """an arbitrary non-empty Pregex of inferred type Other (assumed result of a text-building helper)"""
    key = (fi.qualname, tuple(value_key(v, path, fi.qualname.startswith('pregex.core.classes.')) for v in env.values()))
    if key not in path.memo:
        path.memo[key] = new_pregex(eng, path, fi.qualname.split(".")[-1], "Other")
    return path.memo[key]


def _fresh_mem(eng, tag):
    f = z3.Function(f"mem_{tag}!{eng.fresh_id()}", IntS, BoolS)
    return lambda x, f=f: f(x)


def ret_extract_classes(eng, path, env, fi, contract):
    """__extract_classes(text, unescape=True) (assumed): a set of well-formed range strings and a set of single characters,
    all unescaped, that together list exactly what the bracket text lists"""
    if not isinstance(env.get("unescape"), bool):
        raise Limitation("__extract_classes with a symbolic `unescape`")
    key = ("extract", str_key(env["pattern"]), env["unescape"])
    if key not in path.memo:
        from .symex import AbsSet
        r, c = _fresh_mem(eng, "xr"), _fresh_mem(eng, "xc")
        t = str_term(env["pattern"])
        x = z3.Int("x!xt")
        path.assume(z3.ForAll([x], MEMTXT(t, x) == z3.Or(r(x), c(x)), patterns=[MEMTXT(t, x)]))
        esc = env.get("unescape") is False
        path.memo[key] = (AbsSet("range", r, escaped=esc), AbsSet("char", c, escaped=esc))
    return path.memo[key]


def ret_modify_classes(eng, path, env, fi, contract):
    """__modify_classes(items, escape=True) (assumed): the items re-escaped; printed between brackets they list exactly what
    the items denote"""
    from .symex import AbsSet
    src = env["classes"]
    if not isinstance(src, AbsSet):
        src = AbsSet.of(eng, path, src)
    if env.get("escape") is False:
        # un-escaping: the same items written without backslashes - same denotation, same kind
        return AbsSet(src.kind, src.mem, escaped=False)
    j = SStr([Atom(z3.String(f"joined!{eng.fresh_id()}"), "opq", {"key": f"joined{eng.fresh_id()}"})])
    x = z3.Int("x!mc")
    for opening in ("[", "[^"):
        t = str_term(mkstr(opening, j, "]"))
        path.assume(z3.ForAll([x], MEMTXT(t, x) == src.mem(x), patterns=[MEMTXT(t, x)]))
    return AbsSet("esc", src.mem, joined=j)


def ret_shorthand(eng, path, env, fi, contract):
    """__verbose_to_shorthand (assumed): the same items with \\w / \\d / \\s written for the sub-sets they stand for"""
    from .symex import AbsSet
    src = AbsSet.of(eng, path, env["classes"])
    return AbsSet("mix", src.mem, escaped=True)


def ret_process(eng, path, env, fi, contract):
    """__process used as a callee: (verbose text, simplified text) - two strings; the verbose one lists what the given text lists"""
    if path.branch(eng.equal(env["pattern"], ".", path), "process-any"):
        return (".", ".")
    v = eng.fresh("verbose_p", StrS)
    x = z3.Int("x!pr")
    t = str_term(env["pattern"])
    path.assume(z3.ForAll([x], MEMTXT(v, x) == MEMTXT(t, x), patterns=[MEMTXT(v, x)]))
    vv = SStr([Atom(v, "opq", {"key": f"verbosep{eng.fresh_id()}"})])
    pp = SStr([Atom(eng.fresh("simplified_p", StrS), "opq", {"key": f"simplifiedp{eng.fresh_id()}"})])
    path.assume(z3.Length(pp.term()) > 0)
    return (vv, pp)


def ret_fresh_abs(eng, path, env, fi, contract):
    """a proved function of the interval core used as a callee: fresh abstract sets of the declared shape that satisfy its
    post-condition"""
    from .symex import AbsSet
    from .vc import eval_spec
    shape = contract["result_shape"]
    mk = lambda kind: AbsSet(kind, _fresh_mem(eng, "res" + kind[0]), escaped=bool(contract.get("result_escaped")))
    res = mk(shape) if isinstance(shape, str) else tuple(mk(k) for k in shape)
    env2 = dict(env)
    env2["result"] = res
    g = eng.truth(eval_spec(eng, contract["ensures"], env2, path, fi), path)
    path.assume(zterm(g) if g is not True else True)
    return res


def ret_class_init(eng, path, env, fi, contract):
    """__Class.__init__ (assumed): the instance becomes an arbitrary non-empty pattern of inferred type Class; the text it
    was given and the negation flag are remembered (ghost / private fields)"""
    me = env["self"]
    src = new_pregex(eng, path, "cls", "Class")
    path.fields(me).update(path.fields(src))
    path.setf(me, "_Pregex__pattern", path.fields(src)["_Pregex__pattern"])
    path.fields(me)["_Pregex__type"] = Unknown("inferred type of a class instance")     # Class, or Token after the one-character collapse
    path.setf(me, "_Class__is_negated", env["is_negated"])
    path.fields(me)["_ghost_classarg"] = env["pattern"]
    # __process (assumed): the verbose text lists exactly what the given bracket text lists
    v = z3.String(f"verbose_init!{eng.fresh_id()}")
    x = z3.Int("x!vi")
    t = str_term(env["pattern"])
    path.assume(z3.ForAll([x], MEMTXT(v, x) == MEMTXT(t, x), patterns=[MEMTXT(v, x)]))
    path.setf(me, "_Class__verbose", SStr([Atom(v, "opq", {"key": f"verbose{me.oid}"})]))
    return None


def ret_opaque_class(eng, path, env, fi, contract):
    key = (fi.qualname, tuple(value_key(v, path, fi.qualname.startswith('pregex.core.classes.')) for v in env.values()))
    if key not in path.memo:
        path.memo[key] = new_pregex(eng, path, "union", "Class")
    return path.memo[key]


def ret_opaque_init(eng, path, env, fi, contract):
    """the constructed instance is an arbitrary non-empty Pregex: text unknown, inferred type and flag any the class
    invariant allows (explored by forking where the caller consults them)"""
    me = env["self"]
    src = new_pregex(eng, path, "init", "Other")
    path.fields(me).update(path.fields(src))
    path.fields(me)["_Pregex__type"] = Unknown("inferred type of a meta pattern")
    path.fields(me)["_Pregex__repeatable"] = Unknown("inferred flag of a meta pattern")
    return None


RETURNS = {"shorthand": ret_shorthand, "process": ret_process, "word_invert": ret_word_invert, "extract_classes": ret_extract_classes, "modify_classes": ret_modify_classes, "fresh_abs": ret_fresh_abs,
           "class_wrapped": ret_class_wrapped, "class_op": ret_class_op, "class_ctor": ret_class_ctor, "class_init": ret_class_init, "opaque_class": ret_opaque_class, "opaque_other": ret_opaque_other, "opaque_init": ret_opaque_init, "wrapped_init": ret_wrapped_init, "split_range": ret_split_range, "none": ret_none, "infer": ret_infer, "initpregex": ret_initpregex, "setcompiled": ret_setcompiled, "to_pregex": ret_to_pregex, "pregex": ret_pregex, "expr": ret_expr, "newpregex": ret_newpregex}


# ------------------------------------------------------------------------------------------------------
# engine construction

def load_spec_module(eng):
    """contracts/spec_helpers.py: spec functions written in python, evaluated by the executor itself"""
    path = os.path.join(VERIF, "contracts", "spec_helpers.py")
    tree = ast.parse(open(path).read())

    class M:
        name = "contracts.spec_helpers"
        classes, functions, aliases = {}, {}, {}
        pyobj = None
    m = M()
    for node in tree.body:
        if isinstance(node, ast.FunctionDef):
            eng.spec_funcs[node.name] = SpecFunc(node.name, node, m)
    eng.spec_module = m


def generic_construct(eng, ci, args, kwargs, fr, path):
    """constructors of the class / token layer that have no contract of their own: the result is an arbitrary value of
    the type the class invariant gives them (assumed; bounded stand-ins B1/B2)"""
    mods = eng.index.modules
    base_cls = mods["pregex.core.classes"].classes.get("__Class")
    base_tok = mods["pregex.core.tokens"].classes.get("__Token")
    if base_cls is not None and ci.is_subclass_of(base_cls):
        return new_pregex(eng, path, ci.name, "Class", cls=ci)
    if base_tok is not None and ci.is_subclass_of(base_tok):
        return new_pregex(eng, path, ci.name, "Token", cls=ci)
    return None


def concrete_construct(eng, ci, args, kwargs, fr, path):
    import json
    from .common import native_fast
    from .symex import RaiseExc, concrete_json
    args = concrete_json(list(args), path)
    kwargs = {k: concrete_json(v, path) for k, v in kwargs.items()}
    key = json.dumps([ci.module.name, ci.name, args, kwargs], sort_keys=True)
    if key not in _concrete_cache:
        _concrete_cache[key] = native_fast("construct", {"module": ci.module.name, "cls": ci.name, "args": args, "kwargs": kwargs})
    r = _concrete_cache[key]
    if r.get("unfaithful"):
        return None             # not executable on constants: the caller falls back to the contract
    if "exception" in r:
        raise RaiseExc(r["exception"], Obj(r["exception"], kind="exception"))
    obj = new_pregex(eng, path, ci.name, r["type"], cls=ci, text=r["pattern"], repeatable=r["repeatable"])
    obj.ckey = None
    if "class" in r:
        f = path.fields(obj)
        f["_Class__is_negated"] = r["class"]["negated"]
        f["_Class__verbose"] = r["class"]["verbose"]
        f["_ghost_classarg"] = SStr([Atom(z3.String(f"classarg_{ci.name}_{obj.oid}"), "opq", {"key": f"classarg{obj.oid}"})])
    return obj


def concrete_call(eng, fi, env, fr, path):
    import json
    from .common import native_fast
    from .symex import RaiseExc, concrete_json
    args = {k: concrete_json(v, path) for k, v in env.items()}
    key = json.dumps([fi.qualname, args], sort_keys=True)
    if key not in _concrete_cache:
        _concrete_cache[key] = native_fast("call_concrete", {"qualname": fi.qualname, "args": args})
    r = _concrete_cache[key]
    if r.get("unfaithful"):
        return eng.apply_contract(fi, eng.contracts[fi.qualname], env, fr, path)
    if "exception" in r:
        raise RaiseExc(r["exception"], Obj(r["exception"], kind="exception"))
    if "pattern" in r:
        cls = None
        if "class" in r:
            cls = eng.index.modules["pregex.core.classes"].classes["__Class"]
        obj = new_pregex(eng, path, fi.qualname.split(".")[-1], r["type"], cls=cls, text=r["pattern"], repeatable=r["repeatable"])
        obj.ckey = None
        if "class" in r:
            f = path.fields(obj)
            f["_Class__is_negated"] = r["class"]["negated"]
            f["_Class__verbose"] = r["class"]["verbose"]
            f["_ghost_classarg"] = SStr([Atom(z3.String(f"classarg_c_{obj.oid}"), "opq", {"key": f"classarg{obj.oid}"})])
        return obj
    return r["value"]


def build_engine(index, contracts):
    table = {}
    for q, c in contracts.items():
        c = dict(c)
        r = c.get("returns")
        if isinstance(r, str):
            fn = RETURNS[r]
            c["returns"] = (lambda fn, c: (lambda eng, path, env, fi: fn(eng, path, env, fi, c)))(fn, c)
        if "forks" not in c and "params" in c:
            c["forks"] = forks_for(c["params"])
        table[q] = c
    eng = Engine(index, table, dict(SPEC_BUILTINS))
    eng.last_detail = None
    eng.generic_construct = lambda ci, args, kwargs, fr, path: generic_construct(eng, ci, args, kwargs, fr, path)
    eng.concrete_construct = lambda ci, args, kwargs, fr, path: concrete_construct(eng, ci, args, kwargs, fr, path)
    eng.concrete_call = lambda fi, env, fr, path: concrete_call(eng, fi, env, fr, path)
    eng.hints = {}
    eng.kind_gaps = set()
    eng.kind_tags = KIND_TAGS
    from . import strre
    strre._langs.clear()
    strre.lang_pred(eng, name_lang())       # the documented name language is registered first
    eng.externals["re.compile"] = ext_re_compile
    RM.install(eng)
    load_spec_module(eng)
    return eng
