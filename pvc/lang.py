"""Complete decision of a postcondition about a *concrete* emitted pattern: its language of possible matches in all
contexts, T(P) = {u # v # w}, against a lower and an upper specification language (lower <= T(P) <= upper), for all
texts, by the SMT solvers' regular-expression theory.  Counter-models are replayed on the real `re`.

Also: cross-check of the translator against CPython on sampled (u, v, w) (a disagreement is a checker error)."""
import random, time
from . import rx2smt as R, smt
from .common import native, CheckerError, SEED, NCPU


class Job:
    def __init__(self, key, expr, pattern, tree, lower, upper, universe, note=""):
        self.key, self.expr, self.pattern, self.tree = key, expr, pattern, tree
        self.lower, self.upper, self.U, self.note = lower, upper, universe, note
        self.T = None
        self.error = None


def universe_default():
    return R.cs_minus(((0, R.MAXCP),), R.surplus())


def build(exprs):
    """evaluate constructor expressions natively; returns list of dicts {pattern|exception}, then parse trees"""
    pats = native("build_patterns", {"exprs": exprs})
    idx = [i for i, p in enumerate(pats) if "pattern" in p]
    trees = native("parse", {"patterns": [pats[i]["pattern"] for i in idx]})
    for i, t in zip(idx, trees):
        pats[i]["parsed"] = t
    return pats


def _brz_task(args):
    name, A, Bx, U = args
    t0 = time.time()
    try:
        ok, path, states = R.included(A, Bx, U, limit=150000)
        return name, ("unsat" if ok else "sat"), path, states, time.time() - t0
    except CheckerError as e:
        return name, "unknown", str(e), 0, time.time() - t0
    except RecursionError:
        return name, "unknown", "recursion limit", 0, time.time() - t0


def decide(report, jobs, timeout=20, samples_per_job=40, label="language", smt_all=True):
    """jobs: list of Job.  Adds two obligations per job to the report (T<=upper, lower<=T); replays counter-models.
    Back ends: SMT portfolio on the SMT-LIB regex query AND the derivative-product decision procedure of rx2smt on the
    same regex ASTs; whichever answers discharges, and when both answer they must agree (else checker error)."""
    import concurrent.futures as cf
    import sys
    sys.setrecursionlimit(20000)
    queries = []
    decs = {}
    brz_in = []
    for j in jobs:
        try:
            j.T = R.T_language(j.tree, j.U)
        except R.Untranslatable as e:
            j.error = f"untranslatable: {e}"
            continue
        q1, _, dec, n = R.diff_queries(j.T, j.upper, j.U)
        _, q2, dec2, n2 = R.diff_queries(j.T, j.lower, j.U)
        queries.append((j.key + "|impl<=spec", q1))
        queries.append((j.key + "|spec<=impl", q2))
        decs[j.key + "|impl<=spec"] = dec
        decs[j.key + "|spec<=impl"] = dec2
        brz_in.append((j.key + "|impl<=spec", j.T, j.upper, j.U))
        brz_in.append((j.key + "|spec<=impl", j.lower, j.T, j.U))
    brz = {}
    with cf.ProcessPoolExecutor(max_workers=max(2, NCPU // 2)) as pool:
        futs = [pool.submit(_brz_task, a) for a in brz_in]
        res = smt.run_many(queries, timeout=timeout, workers=max(2, NCPU // 2), order=["z3-5.1"]) if smt_all else {}
        for f in futs:
            name, st, info, states, dt = f.result()
            brz[name] = (st, info, states, dt)
    # queries nobody decided: the rest of the portfolio with a longer budget
    open_q = [(n, q) for n, q in queries if res.get(n, ("unknown",))[0] == "unknown" and brz[n][0] == "unknown"]
    if open_q:
        res.update(smt.run_many(open_q, timeout=max(60, timeout * 3), order=["cvc5-1.0", "z3-4.8", "z3-5.1"]))
    merged = {}
    for n, q in queries:
        s_st, s_out, s_bk, s_dt = res.get(n, ("unknown", "", "none", 0.0))
        b_st, b_info, b_states, b_dt = brz[n]
        if s_st != "unknown" and b_st != "unknown" and s_st != b_st:
            raise CheckerError(f"back ends disagree on {n}: {s_bk}={s_st} derivative-product={b_st}")
        if s_st != "unknown":
            bk = s_bk + ("+brz" if b_st != "unknown" else "")
            merged[n] = (s_st, s_out, bk, s_dt + b_dt, None)
        elif b_st != "unknown":
            merged[n] = (b_st, "", "brz-derivative-product", s_dt + b_dt, b_info)
        else:
            merged[n] = ("unknown", s_out, "none", s_dt + b_dt, None)
    # translator cross-check against CPython on sampled texts
    xc = crosscheck([j for j in jobs if j.T is not None], samples_per_job)
    sat_cases = []
    for j in jobs:
        if j.error:
            report.ob(j.key + "|translate", "unknown", "rx2smt", 0.0, kind="language", detail=j.error)
            continue
        for d in ("impl<=spec", "spec<=impl"):
            name = j.key + "|" + d
            st, out, bk, dt, path = merged[name]
            if st == "unsat":
                report.ob(name, "discharged", bk, dt, kind="language",
                          detail={"expr": j.expr, "pattern": j.pattern[:160], "all_texts": True})
            elif st == "unknown":
                report.ob(name, "unknown", bk, dt, kind="language", detail=out[-200:])
            else:
                if path is not None:
                    pieces, cur = [], []
                    for c in path:
                        if c == R.MARKCP:
                            pieces.append("".join(cur)); cur = []
                        else:
                            cur.append(chr(c))
                    pieces.append("".join(cur))
                else:
                    ms = smt.model_string(out)
                    pieces = decs[name](ms) if ms is not None else None
                sat_cases.append((j, d, name, pieces, bk, dt))
    # replay counter-models natively
    if sat_cases:
        items = []
        for j, d, name, pieces, bk, dt in sat_cases:
            if pieces is None or len(pieces) != 3:
                items.append((j.pattern, []))
            else:
                items.append((j.pattern, [pieces]))
        nat = native("match_at", {"items": items})
        for (j, d, name, pieces, bk, dt), r in zip(sat_cases, nat):
            if not r:
                report.ob(name, "failed", bk, dt, kind="language")
                report.violation(name, {"expr": j.expr, "pattern": j.pattern, "solver": bk,
                                        "reason": "counter-model could not be decoded"}, None, no_input=True)
                continue
            got = r[0]
            claims_impl_matches = (d == "impl<=spec")
            if got is not claims_impl_matches:
                raise CheckerError(f"rx2smt counter-model for {name} does not replay on re: pieces={pieces!r} "
                                   f"re says {got}")
            report.ob(name, "failed", bk, dt, kind="language")
            u, v, w = pieces
            what = ("the real pattern matches %r inside %r (offset %d) but the specification language does not "
                    "contain it" if claims_impl_matches else
                    "the specification language contains the match %r inside %r (offset %d) but the real pattern "
                    "cannot match it") % (v, u + v + w, len(u))
            report.violation(name, {"expr": j.expr, "pattern": j.pattern, "u": u, "v": v, "w": w, "what": what,
                                    "solver": bk},
                             {"kind": "match_at", "expr": j.expr, "u": u, "v": v, "w": w,
                              "expect_match": not claims_impl_matches}, witness=[j.expr, u, v, w])
    return xc


def crosscheck(jobs, per_job):
    """sampled agreement of T(P) (derivative semantics of the regex AST) with CPython's verdict"""
    rnd = random.Random(SEED * 7919 + 13)
    items, metas = [], []
    for j in jobs:
        sets = set()
        R.collect_sets(j.T, sets)
        R.collect_sets(j.upper, sets)
        blocks, _ = R.minterms(sorted(sets), j.U)
        reps = [chr(R.representative(b)) for b in blocks]
        # alphabet biased to the characters the pattern talks about
        cases = []
        seeds = spec_samples(j, reps, rnd)
        for _ in range(per_job):
            if seeds and rnd.random() < 0.6:
                v = rnd.choice(seeds)
                if rnd.random() < 0.4 and v:
                    k = rnd.randrange(len(v))
                    v = v[:k] + rnd.choice(reps) + v[k + (rnd.random() < 0.5):]
            else:
                v = "".join(rnd.choice(reps) for _ in range(rnd.randint(0, 6)))
            u = "".join(rnd.choice(reps) for _ in range(rnd.choice([0, 0, 1, 1, 2])))
            w = "".join(rnd.choice(reps) for _ in range(rnd.choice([0, 0, 1, 1, 2])))
            cases.append([u, v, w])
        items.append((j.pattern, cases))
        metas.append(j)
    if not items:
        return {"cases": 0, "positive": 0}
    nat = native("match_at", {"items": items})
    total = pos = 0
    for j, (pat, cases), res in zip(metas, items, nat):
        for (u, v, w), got in zip(cases, res):
            if not isinstance(got, bool):
                raise CheckerError(f"crosscheck: {pat!r}: {got}")
            mine = R.T_member(j.T, u, v, w)
            total += 1
            pos += int(got)
            if mine != got:
                raise CheckerError(f"rx2smt disagrees with CPython on pattern {pat!r} at (u,v,w)={(u, v, w)!r}: "
                                   f"translation says {mine}, re says {got}")
    return {"cases": total, "positive": pos}


def spec_samples(j, reps, rnd, n=12, maxlen=48):
    """a few members of the upper spec's v-language, by random walks over derivatives (to make the cross-check
    exercise matching texts, not only rejections)"""
    out = []
    # take the v part: upper is cat(left, MARK, body, MARK, right) by construction
    body = None
    if j.upper[0] == 'cat':
        xs = j.upper[1]
        marks = [i for i, x in enumerate(xs) if x == R.MARK]
        if len(marks) == 2:
            body = R.cat(*xs[marks[0] + 1:marks[1]])
    if body is None:
        return out
    cps = [ord(c) for c in reps]
    for _ in range(n):
        r, s = body, []
        for _ in range(maxlen):
            if R.nullable(r) and rnd.random() < 0.25:
                break
            opts = [(c, R.deriv(r, c)) for c in cps]
            opts = [(c, d) for c, d in opts if d != R.NONE]
            if not opts:
                break
            c, r = rnd.choice(opts)
            s.append(chr(c))
        if R.nullable(r):
            out.append("".join(s))
    return out
