"""B6 - validation of axiom R6's width rule (native): for DSL expressions generated together with their STRUCTURAL
width range (wmin, wmax), the four look-behind methods must raise NonFixedWidthPatternException iff wmin != wmax, and an
accepted pattern must compile.  Bounded (generated expressions, depth <= 3)."""
import random, re
from . import native as N

INF = 10 ** 9


def gen(rnd, depth):
    """returns (expr source, wmin, wmax)"""
    k = rnd.random()
    if depth == 0 or k < 0.25:
        c = rnd.choice(["lit", "lit", "cls", "meta", "tok"])
        if c == "lit":
            s = "".join(rnd.choice("ab?*+{}()|.$^[]\\-12, ") for _ in range(rnd.randint(1, 3)))
            return "Pregex(%r)" % s, len(s), len(s)
        if c == "cls":
            return rnd.choice(["AnyDigit()", "AnyFrom('+', '-')", "AnyFrom('?', '*')", "AnyLetter()", "AnyFrom('{', '}')", "Any()",
                               "AnyButFrom('a')"]), 1, 1
        if c == "meta":
            return rnd.choice(["Pregex('?')", "Pregex('a{2,3}')", "Pregex('+*')"]), None, None
        return rnd.choice(["Newline()", "Backslash()", "Dollar()"]), 1, 1
    a, a0, a1 = gen(rnd, depth - 1)
    if a0 is None:
        a0 = a1 = len(eval(a[7:-1]))
    op = rnd.choice(["cat", "either", "opt", "exactly", "alam", "indef", "group", "capture", "neglook", "poslook", "anchor", "cat", "either"])
    if op in ("cat", "either"):
        b, b0, b1 = gen(rnd, depth - 1)
        if b0 is None:
            b0 = b1 = len(eval(b[7:-1]))
        if op == "cat":
            return f"({a} + {b})", a0 + b0, min(INF, a1 + b1)
        return f"Either({a}, {b})", min(a0, b0), max(a1, b1)
    if op == "opt":
        return f"Optional({a})", 0, a1
    if op == "exactly":
        n = rnd.randint(1, 3)
        return f"Exactly({a}, {n})", a0 * n, min(INF, a1 * n)
    if op == "alam":
        n = rnd.randint(0, 2)
        m = max(1, n + rnd.randint(0, 2))
        return f"AtLeastAtMost({a}, {n}, {m})", a0 * n, min(INF, a1 * m)
    if op == "indef":
        return f"Indefinite({a})", 0, (0 if a1 == 0 else INF)
    if op == "group":
        return f"Group({a})", a0, a1
    if op == "capture":
        return f"Capture({a})", a0, a1
    if op == "neglook":
        b, _, _ = gen(rnd, 0)
        return f"NotFollowedBy({a}, {b})", a0, a1
    if op == "poslook":
        b, _, _ = gen(rnd, 0)
        return f"FollowedBy({a}, {b})", a0, a1
    return f"MatchAtLineStart({a})", a0, a1


def run(n=3000, seed=0):
    ns = N.pregex_ns()
    import pregex.core.exceptions as ex
    rnd = random.Random(seed)
    fails = []
    done = 0
    variable = 0
    for _ in range(n):
        e, w0, w1 = gen(rnd, rnd.randint(0, 3))
        if w0 is None:
            w0 = w1 = len(eval(e[7:-1]))
        try:
            p = eval(e, ns)
        except (ex.CannotBeRepeatedException, ex.NonFixedWidthPatternException, ex.EmptyNegativeAssertionException):
            continue
        except (RecursionError, IndexError, KeyError, TypeError, AttributeError, ValueError, re.error) as err:
            fails.append({"expr": e, "error": f"crashed with {type(err).__name__} (not a library exception)"})
            continue
        if str(p) == "":
            continue
        done += 1
        fixed = (w0 == w1)
        variable += (not fixed)
        for meth in ("preceded_by", "not_preceded_by", "enclosed_by", "not_enclosed_by"):
            try:
                r = getattr(ns["Pregex"]("x"), meth)(p)
                raised = False
            except ex.NonFixedWidthPatternException:
                raised = True
            except (RecursionError, IndexError, KeyError, TypeError, AttributeError, ValueError, re.error) as err:
                fails.append({"expr": f"Pregex('x').{meth}({e})", "pattern": str(p), "method": meth,
                              "error": f"crashed with {type(err).__name__} (not a library exception)"})
                break
            if raised == fixed:
                fails.append({"expr": e, "pattern": str(p), "structural_width": [w0, w1], "method": meth, "raised": raised})
                break
            if not raised:
                try:
                    re.compile(str(r), re.M | re.S)
                except re.error as err:
                    if "group" in str(err):
                        continue
                    fails.append({"expr": e, "pattern": str(r), "method": meth, "error": str(err)})
                    break
    return {"evaluations": done * 4, "expressions": done, "variable_width": variable, "failures": fails[:10]}
