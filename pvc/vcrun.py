"""Runs the VC driver over a set of functions under contract (in parallel), merges the outcome into a Report, replays
counter-models on the real code, and falls back to the bounded stand-in of a contract when the verifier cannot process
the function's current source."""
import concurrent.futures as cf, fractions, os, time
from .common import native, CheckerError, NCPU, SEED

_eng = None


def _engine():
    global _eng
    if _eng is None:
        from . import extract, specsym
        import contracts
        idx = extract.Index()
        _eng = specsym.build_engine(idx, contracts.ALL)
    return _eng


def _verify_one(q):
    """q: a qualified name, or (qualified name, i, n) for the i-th of n slices of its argument-kind forks"""
    from . import specsym, vc
    from .common import NativeServer
    sl = None
    if isinstance(q, tuple):
        q, sl = q[0], (q[1], q[2])
    eng = _engine()
    eng.kind_gaps.clear()
    from .vc import CROSS
    cross0 = dict(CROSS["stats"])
    t0 = time.time()
    try:
        r = vc.verify_function(eng, q, eng.contracts[q], specsym.make_args, fork_slice=sl)
        out = dict(cross={k: v - cross0.get(k, 0) for k, v in CROSS["stats"].items()}, qualname=q, obligations=r.obligations, paths=r.paths, forks=r.forks, covers=r.covers,
                   limitation=r.limitation, source_hash=r.source_hash, wall=time.time() - t0, hints=dict(eng.hints),
                   kind_gaps=sorted(eng.kind_gaps))
    except CheckerError as e:
        out = dict(qualname=q, obligations=[], paths=0, forks=0, covers={}, limitation=f"checker: {e}", source_hash=None,
                   wall=time.time() - t0, hints={})
    return out


def arg_descs(contract, fork_tag, model, hints=None):
    """concrete argument descriptors from a fork tag ('self=Other,n=int,...') and a solver model"""
    from .specsym import TYPE_NAMES
    fork = dict(kv.split("=", 1) for kv in fork_tag.split(",")) if fork_tag else {}
    model = model or {}
    out = {}
    for name in contract["params"]:
        tag = fork.get(name)
        mv = model.get(name)
        if contract["params"][name] in ("varpre", "varpre_small", "varchars"):
            items = []
            for i, t in enumerate(tag.split("|") if tag else []):
                sub = arg_descs({"params": {f"{name}{i}": "pre"}}, f"{name}{i}={t}", model, hints)
                items.append(sub[f"{name}{i}"])
            out[name] = {"kind": "tuple", "items": items}
        elif contract["params"][name] == "selfc":
            out[name] = {"kind": "selfc", "compiled": "+compiled" in (tag or "")}
        elif contract["params"][name] == "text":
            out[name] = {"kind": "text"}
        elif tag in ("True", "False"):
            out[name] = {"kind": "bool", "value": tag == "True"}
        elif tag and tag.startswith("const:"):
            out[name] = {"kind": "int", "value": int(tag.split(":")[1])}
        elif tag == "int_outside_2_16":
            out[name] = {"kind": "int", "value": int(mv) if mv not in (None,) and _isint(mv) else 0}
        elif tag == "new":
            out[name] = {"kind": "new"}
        elif tag and tag.startswith("classobj"):
            out[name] = {"kind": "classobj"}
        elif tag and tag.startswith("strs:"):
            k = int(tag.split(":")[1])
            out[name] = {"kind": "list", "value": [_smt_str(model.get(f"{name}{i}"), "s") for i in range(k)]}
        elif tag == "strs+other":
            out[name] = {"kind": "list", "value": [_smt_str(model.get(f"{name}0"), "s"), "<object>"]}
        elif tag in TYPE_NAMES:
            d = {"kind": "pregex", "type": tag}
            for k, v in model.items():
                if k.startswith(f"rep_{name}_"):
                    d["repeatable"] = (v == "True")
            out[name] = d
        elif tag == "int":
            out[name] = {"kind": "int", "value": int(mv) if mv not in (None,) and _isint(mv) else 0}
        elif tag == "bool":
            out[name] = {"kind": "bool", "value": (mv == "True")}
        elif tag == "float":
            try:
                val = float(fractions.Fraction(mv.replace("?", ""))) if mv else 0.5
            except Exception:
                val = 0.5
            out[name] = {"kind": "float", "value": val}
        elif tag == "none":
            out[name] = {"kind": "none"}
        elif tag == "other":
            out[name] = {"kind": "other"}
        elif tag == "str0":
            out[name] = {"kind": "str", "value": ""}
        elif tag == "str1":
            out[name] = {"kind": "str", "value": _smt_str(mv, "a")[:1] or "a"}
        elif tag == "str2":
            s = _smt_str(mv, "ab")
            out[name] = {"kind": "str", "value": s if len(s) >= 2 else "ab"}
        elif tag == "str":
            out[name] = {"kind": "str", "value": _smt_str(mv, "s")}
            if contract["params"][name] in ("optname", "name"):
                out[name] = {"kind": "strs", "values": list((hints or {}).get("distinguishing_strings", [])) + ["nm", "_x1"]}
        else:
            out[name] = {"kind": "other"}
    return out


def _isint(s):
    try:
        int(s)
        return True
    except Exception:
        return False


def _smt_str(mv, default):
    if not mv:
        return default
    s = mv.strip()
    if s.startswith('"') and s.endswith('"'):
        s = s[1:-1]
    import re
    s = re.sub(r"\\u\{([0-9a-fA-F]+)\}", lambda m: chr(int(m.group(1), 16)), s)
    return s.replace('""', '"')


def run_bounded(report, q, tier, reason, limit=None):
    """bounded stand-in: the same contract evaluated at run time on the real function over a stated finite pool"""
    lim = limit or (3000 if tier == "quick" else 40000)
    b = native("run_module", {"module": "pvc.bex_contract", "func": "bounded",
                              "args": {"qualname": q, "limit": lim, "seed": SEED}}, timeout=3600)
    report.bounded.append({"function": q, "reason": reason,
                           "contract": "same contract, evaluated at run time on the real function",
                           "bound": f"product of the argument pools of pvc/bex_contract.py ({b['space']} combinations"
                                    + ("" if b["exhaustive"] else f", {b['evaluations']} sampled") + ")",
                           "evaluations": b["evaluations"], "distinct_nontrivial": b["evaluations"],
                           "rule": "distinct argument combinations", "outcomes": b["outcomes"]})
    for f in b["failures"][:3]:
        call = ", ".join(f"{k}={v}" for k, v in f["args"].items())
        report.violation(f"{q}: contract (bounded stand-in)", {"function": q, "failing_call": call, "why": f.get("why"),
                         "observed": f.get("observed"), "reason_for_bounded": reason},
                         {"kind": "contract_call", "qualname": q, "args": f["args"]}, witness=call)
    return b


def semantic_fallback(report, q):
    """language equivalence (all texts, all contexts) of the pattern a constructor emits and of the chain its contract names,
    over the pool of its argument kinds; differences are reported as violations with the distinguishing text"""
    from . import lang, rx2smt as R
    from .common import Report
    b = native("run_module", {"module": "pvc.bex_contract", "func": "chain_pairs", "args": {"qualname": q, "limit": 400, "seed": SEED}},
               timeout=1800)
    out = {"compared": len([p for p in b["pairs"] if "chain" in p]), "violations": 0}
    for p in [p for p in b["pairs"] if "chain_error" in p][:3]:
        call = q.rsplit(".", 2)[-2] + "(" + ", ".join(f"{k}={v}" for k, v in p["args"].items() if k != "self") + ")"
        out["violations"] += 1
        report.violation(f"{q}: the chain of operations named by the contract cannot be built: {call}",
                         {"call": call, "emitted": p["real"], "chain_raises": p["chain_error"]},
                         {"kind": "contract_call", "qualname": q, "args": p["args"]}, witness=call)
    pairs = [p for p in b["pairs"] if "chain" in p and p["real"] != p["chain"]][:60]
    if not pairs:
        return out
    U = lang.universe_default()
    trees = native("parse", {"patterns": [p["real"] for p in pairs] + [p["chain"] for p in pairs]})
    jobs = []
    for i, p in enumerate(pairs):
        tr, tc = trees[i], trees[len(pairs) + i]
        call = q.rsplit(".", 2)[-2] + "(" + ", ".join(f"{k}={v}" for k, v in p["args"].items() if k != "self") + ")"
        if "tree" not in tr or "tree" not in tc:
            if "tree" not in tr and "tree" in tc:
                out["violations"] += 1
                report.violation(f"{q}: emitted pattern does not compile", {"call": call, "pattern": p["real"]},
                                 {"kind": "expr", "expr": call}, witness=call)
            continue
        try:
            T = R.T_language(tc["tree"], U)
        except R.Untranslatable:
            continue
        jobs.append(lang.Job(call, call, p["real"], tr["tree"], T, T, U))
    tmp = Report(report.prop, report.tier, report.level)
    lang.decide(tmp, jobs, timeout=30, samples_per_job=10)
    for v in tmp.violations:
        out["violations"] += 1
        report.violations.append(v)
    # equal languages do not settle match PRIORITY (greedy / lazy, order of alternatives): the two patterns are also run by
    # `re` on texts sampled from the chain's language in sampled contexts, and on their repetitions
    import random
    rnd = random.Random(SEED + 4242)
    items = []
    for j in jobs:
        if j.T is None:
            continue
        sets = set()
        R.collect_sets(j.T, sets)
        blocks, _ = R.minterms(sorted(sets), j.U)
        reps = [chr(R.representative(b_)) for b_ in blocks]
        seeds = lang.spec_samples(j, reps, rnd, n=16, maxlen=24) or [""]
        texts = set(seeds)
        for v in seeds:
            for _ in range(3):
                u = "".join(rnd.choice(reps) for _ in range(rnd.choice([0, 1, 2])))
                w = "".join(rnd.choice(reps) for _ in range(rnd.choice([0, 1, 2])))
                texts.add(u + v + w)
            texts.add(v + v)
            texts.add(v + " " + v)
        spec_pattern = next(p["chain"] for p in pairs if p["real"] == j.pattern)
        items.append((j.pattern, spec_pattern, sorted(texts)[:80]))
    if items:
        res = native("compare_matches", {"items": items})
        for (p1, p2, _), d, j in zip(items, res, [j for j in jobs if j.T is not None]):
            if d and "text" in d:
                out["violations"] += 1
                code = (f"import re\nt = {d['text']!r}\nobserved = [m.span() for m in re.finditer({p1!r}, t, re.M | re.S)]\n"
                        f"expected = [m.span() for m in re.finditer({p2!r}, t, re.M | re.S)]\nviolated = observed != expected")
                report.violation(f"{q}: emitted pattern matches differently from the chain: {j.expr}",
                                 {"call": j.expr, "emitted": p1, "chain": p2, **d}, {"kind": "python", "code": code}, witness=j.expr)
    report.bounded.append({"function": q, "contract": "language of the emitted pattern == language of the chain of operations named by the "
                           "contract (the text-equality clause no longer verifies)", "bound": f"{len(b['pairs'])} distinct (emitted, chain) "
                           f"pairs from the argument pools; {len(jobs)} with different texts decided for all texts",
                           "evaluations": b["returned"], "distinct_nontrivial": len(jobs), "rule": "distinct (emitted, chain) pattern pairs"})
    return out


def load_lock():
    p = os.path.join(os.path.dirname(os.path.dirname(os.path.abspath(__file__))), "obligations.lock")
    if os.path.exists(p):
        import json
        return json.load(open(p))
    return {}


def run_functions(report, qualnames, tier="quick", bounded_limit=None, monitor=True, use_lock=True):
    import contracts
    lock = load_lock() if use_lock else {}
    t0 = time.time()
    qualnames = list(dict.fromkeys(qualnames))
    bounded_only = [q for q in qualnames if contracts.ALL[q].get("bounded_only")]
    qualnames = [q for q in qualnames if q not in bounded_only]
    for q in bounded_only:
        run_bounded(report, q, tier, "the function is outside the verifier's loop forms (contract stated, bounded-checked only)")
        report.functions[q] = {"regime": "bounded stand-in only"}
    results = []
    # functions with many argument-kind forks are split over several processes (every n-th fork each)
    tasks = []
    for q in qualnames:
        nf = len(_engine().contracts[q].get("forks", [{}])) if not callable(_engine().contracts[q].get("forks")) else 1
        n = min(NCPU, nf // 48) if nf >= 96 else 1
        if _engine().contracts[q].get("slice_forks"):
            n = min(NCPU, nf)
        tasks += [q] if n <= 1 else [(q, i, n) for i in range(n)]
    if len(tasks) > 2:
        with cf.ProcessPoolExecutor(max_workers=min(NCPU, len(tasks))) as ex:
            parts = list(ex.map(_verify_one, tasks))
    else:
        parts = [_verify_one(t) for t in tasks]
    merged = {}
    for r in parts:
        m = merged.get(r["qualname"])
        if m is None:
            merged[r["qualname"]] = r
            continue
        m["obligations"] += r["obligations"]
        m["paths"] += r["paths"]
        m["forks"] += r["forks"]
        m["wall"] = max(m["wall"], r["wall"])
        m["limitation"] = m["limitation"] or r["limitation"]
        m["source_hash"] = m["source_hash"] or r["source_hash"]
        m["kind_gaps"] = sorted(set(map(tuple, m.get("kind_gaps", []))) | set(map(tuple, r.get("kind_gaps", []))))
        for k, v in r["covers"].items():
            m["covers"][k] = m["covers"].get(k, 0) + v
        m["hints"].update(r["hints"])
    sliced = {t[0] for t in tasks if isinstance(t, tuple)}
    for q in sliced:
        m = merged[q]
        for k, n in m["covers"].items():
            if n == 0 and not m["limitation"] and not contracts.ALL[q].get("cover_optional", {}).get(k):
                m["obligations"].append({"name": f"{q} cover: {k} exit is reachable", "status": "failed", "backend": "cover",
                                         "time_s": 0.0, "kind": "cover", "model": None, "fork": None, "detail": None})
    results = [merged[q] for q in qualnames]
    from .common import NativeServer
    NativeServer.stop()
    for r in results:
        q = r["qualname"]
        c = contracts.ALL[q]
        report.functions[q] = {"source_sha256_16": r["source_hash"], "forks": r["forks"], "paths": r["paths"],
                               "covers": r["covers"], "regime": "proved" if not r["limitation"] else "bounded stand-in",
                               "wall_s": round(r["wall"], 2)}
        gaps = {}
        for callee, pname, tag in r.get("kind_gaps", []):
            gaps.setdefault((callee, pname), []).append(tag)
        for (callee, pname), tags in gaps.items():
            a = (f"{q} calls {callee} with `{pname}` of kind {', '.join(sorted(set(tags)))}: outside the argument kinds that "
                 "callee's contract was verified for (its contract is assumed to hold there too)")
            if a not in report.assumptions:
                report.assumptions.append(a)
        failed_groups = {}
        sem = None
        if c.get("semantic_fallback") and any(o["status"] != "discharged" and o.get("kind") == "ensures" for o in r["obligations"]):
            # the post-condition "the emitted text is the text of this chain of operations" no longer verifies.  That clause is
            # stronger than the property (equal texts => equal languages): before anything is reported, the languages of the
            # emitted pattern and of the chain are compared, for all texts, on the pool of argument tuples.
            sem = semantic_fallback(report, q)
            for o in r["obligations"]:
                if o["status"] != "discharged" and o.get("kind") == "ensures":
                    o["status"] = "failed" if sem["violations"] else "unknown"
                    if not sem["violations"]:
                        o["kind"] = "refinement-lost"
                    o["backend"] = (o.get("backend") or "") + f"; text differs from the stated chain; languages compared on {sem['compared']} argument tuples: " + \
                        ("DIFFERENT" if sem["violations"] else "equal (the for-all statement is no longer proved)")
        for o in r["obligations"]:
            report.ob(o["name"], o["status"], o["backend"], o["time_s"], kind=o.get("kind", "vc"))
            if o["status"] == "failed" and not (sem is not None and o.get("kind") in ("ensures", "refinement-lost")):
                failed_groups.setdefault((o.get("kind"), o["name"].split("] ", 1)[-1]), []).append(o)
        for (kind, short), obs in failed_groups.items():
            key = f"{q}: {short}"
            # replay the first few counter-models natively against the same contract
            rep = None
            for o in obs[:6]:
                if o.get("fork") is None:
                    continue
                descs = arg_descs(c, o["fork"], o.get("model"), r.get("hints"))
                try:
                    rr = native("run_module", {"module": "pvc.bex_contract", "func": "replay",
                                               "args": {"qualname": q, "arg_descs": descs}})
                except CheckerError as e:
                    rr = {"reproduced": False, "error": str(e)[-300:]}
                if rr.get("reproduced"):
                    rep = (o, descs, rr)
                    break
            if rep is not None:
                o, descs, rr = rep
                call = ", ".join(f"{k}={v}" for k, v in rr["args"].items())
                report.violation(key, {"function": q, "obligation": o["name"], "failing_call": call, "why": rr.get("why"),
                                       "observed": rr.get("observed"), "model": o.get("model")},
                                 {"kind": "contract", "qualname": q, "arg_descs": descs}, witness=call)
            else:
                # targeted bounded search on the same contract for a concrete failing input (DESIGN 9, step 2)
                found = None
                try:
                    b = native("run_module", {"module": "pvc.bex_contract", "func": "bounded",
                                              "args": {"qualname": q, "limit": 6000, "seed": SEED}}, timeout=1800)
                    if b["failures"]:
                        found = b["failures"][0]
                except CheckerError:
                    pass
                o = obs[0]
                if found is not None:
                    call = ", ".join(f"{k}={v}" for k, v in found["args"].items())
                    report.violation(key, {"function": q, "obligation": o["name"], "failing_call": call, "why": found.get("why"),
                                           "observed": found.get("observed"), "model": o.get("model"),
                                           "note": "input found by the targeted bounded search on the failed contract"},
                                     {"kind": "contract_call", "qualname": q, "args": found["args"]}, witness=call)
                    continue
                report.violation(key, {"function": q, "obligation": o["name"], "model": o.get("model"),
                                       "detail": o.get("detail"), "note": "the counter-model did not replay on the witness "
                                       "library; the obligation is reported as failed"},
                                 None, no_input=True)
        unknown = [o for o in r["obligations"] if o["status"] == "unknown" and not (sem is not None and o.get("kind") in ("ensures", "refinement-lost"))]
        lk = lock.get(q)
        if unknown and lk and lk.get("all_discharged") and lk.get("source_hash") != r["source_hash"]:
            # regression: these obligations were discharged for the locked source of this function and are not for the
            # current one.  A concrete failing input is searched for with the bounded check of the same contract.
            found = None
            try:
                b = native("run_module", {"module": "pvc.bex_contract", "func": "bounded",
                                          "args": {"qualname": q, "limit": 8000, "seed": SEED}}, timeout=1800)
                if b["failures"]:
                    found = b["failures"][0]
            except CheckerError:
                pass
            for o in unknown:
                o["status"] = "failed"
            for ob in report.obligations:
                if ob["name"] in {o["name"] for o in unknown}:
                    ob["status"] = "failed"
            names = sorted({o["name"].split("] ", 1)[-1] for o in unknown})
            key = f"{q}: {names[0]}"
            if found is not None:
                call = ", ".join(f"{k}={v}" for k, v in found["args"].items())
                report.violation(key, {"function": q, "obligations_no_longer_discharged": names, "failing_call": call,
                                       "why": found.get("why"), "observed": found.get("observed"),
                                       "note": "discharged for the locked source of this function; input found by the bounded check of the contract"},
                                 {"kind": "contract_call", "qualname": q, "args": found["args"]}, witness=call)
            else:
                report.violation(key, {"function": q, "obligations_no_longer_discharged": names,
                                       "solver_output": [o.get("backend") for o in unknown][:4],
                                       "note": "these obligations were discharged for the locked source of this function "
                                               "(obligations.lock) and the solvers no longer discharge them for the current source"},
                                 None, no_input=True)
        if r["limitation"]:
            # the verifier cannot process the current source of this function: bounded stand-in of the same contract
            try:
                run_bounded(report, q, tier, "checker limitation: " + r["limitation"], bounded_limit)
            except CheckerError as e:
                raise CheckerError(f"{q}: verifier limitation ({r['limitation']}) and the bounded stand-in failed: {e}")
    if os.environ.get("PVC_CROSS_EVERY"):
        tot = report.extra.setdefault("solver_cross_check", {})
        for r in parts:
            for k, v in (r.get("cross") or {}).items():
                tot[k] = tot.get(k, 0) + v
        report.extra["solver_cross_check_note"] = ("every %s-th obligation discharged by z3 5.1 re-decided by z3 4.8.12 and cvc5 1.0.3 on "
                                                    "the SMT-LIB text; 'unknown' means the second solver timed out (20 s), never a disagreement" % os.environ["PVC_CROSS_EVERY"])
    report.extra.setdefault("vc_wall_s", 0)
    report.extra["vc_wall_s"] += round(time.time() - t0, 2)
    return results
