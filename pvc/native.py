"""Runs under the interpreter the repository's test-suite uses (/venv/bin/python, CPython 3.12) with the real
pregex (PYTHONPATH=$PVC_REPO/src).  Every execution of pregex itself and every use of CPython's own regex parser
by the checks goes through one of the tasks below; data crosses the process boundary as JSON on stdin/stdout.

    python -m pvc.native <task>   < payload.json   > result.json
"""
import json, sys, re, importlib, traceback, warnings

warnings.simplefilter("ignore")

TASKS = {}


def task(f):
    TASKS[f.__name__] = f
    return f


# ------------------------------------------------------------------------------------------------
# regex parse trees (CPython's own parser) as JSON

def _parser():
    try:
        import re._parser as p, re._constants as c
    except ImportError:  # < 3.11
        import sre_parse as p, sre_constants as c
    return p, c


def tree_to_json(sub):
    p, c = _parser()
    out = []
    for op, av in sub:
        out.append([str(op), _av(op, av)])
    return out


def _av(op, av):
    p, c = _parser()
    name = str(op)
    if name in ("LITERAL", "NOT_LITERAL"):
        return av
    if name == "ANY":
        return None
    if name == "IN":
        items = []
        for o, a in av:
            on = str(o)
            if on == "NEGATE":
                items.append(["NEGATE", None])
            elif on == "LITERAL":
                items.append(["LITERAL", a])
            elif on == "RANGE":
                items.append(["RANGE", [a[0], a[1]]])
            elif on == "CATEGORY":
                items.append(["CATEGORY", str(a)])
            else:
                items.append([on, repr(a)])
        return items
    if name == "BRANCH":
        return [tree_to_json(b) for b in av[1]]
    if name == "SUBPATTERN":
        g, af, df, sp = av
        return [g, af, df, tree_to_json(sp)]
    if name in ("MAX_REPEAT", "MIN_REPEAT", "POSSESSIVE_REPEAT"):
        lo, hi, sp = av
        return [int(lo), (None if hi == c.MAXREPEAT else int(hi)), tree_to_json(sp)]
    if name in ("ASSERT", "ASSERT_NOT"):
        d, sp = av
        return [d, tree_to_json(sp)]
    if name == "AT":
        return str(av)
    if name == "GROUPREF":
        return av
    if name == "GROUPREF_EXISTS":
        g, yes, no = av
        return [g, tree_to_json(yes), (tree_to_json(no) if no is not None else None)]
    if name == "CATEGORY":
        return str(av)
    if name == "ATOMIC_GROUP":
        return tree_to_json(av)
    return repr(av)


@task
def parse(payload):
    """payload: {patterns:[...], flags:int}.  Result: list of {tree | error}."""
    p, c = _parser()
    res = []
    for pat in payload["patterns"]:
        try:
            t = p.parse(pat, payload.get("flags", re.M | re.S))
            res.append({"tree": tree_to_json(t), "groups": t.state.groups - 1,
                        "groupdict": dict(t.state.groupdict)})
        except Exception as e:
            res.append({"error": f"{type(e).__name__}: {e}"})
    return res


_noopt_installed = False


def install_noopt():
    """Swap in a non-optimising _parse_sub: it calls the real _parse for every alternative and only omits the two
    rewrites that hide syntax (a|b -> [ab], common-prefix hoisting).  Pins the shape of the private API."""
    global _noopt_installed
    if _noopt_installed:
        return
    p, c = _parser()
    import inspect
    src = inspect.getsource(p._parse_sub)
    if "def _parse_sub(source, state, verbose, nested)" not in src or "_parse(source, state, verbose, nested + 1" not in src:
        raise RuntimeError("re._parser._parse_sub does not have the expected shape; refusing to patch")

    def _parse_sub(source, state, verbose, nested):
        items = []
        while True:
            items.append(p._parse(source, state, verbose, nested + 1, not nested and not items))
            if not source.match("|"):
                break
            if not nested:
                verbose = state.flags & c.SRE_FLAG_VERBOSE
        if len(items) == 1:
            return items[0]
        subpattern = p.SubPattern(state)
        subpattern.append((c.BRANCH, (None, items)))
        return subpattern

    p._parse_sub = _parse_sub
    _noopt_installed = True


@task
def parse_noopt(payload):
    """like parse, with the non-optimising alternation parser (DESIGN 3.5)"""
    install_noopt()
    return parse(payload)


@task
def category_ranges(payload):
    """Exact code-point sets of the Unicode-aware shorthands, as CPython's re matches them."""
    allc = "".join(map(chr, range(0x110000)))
    out = {}
    for name, pat in (("d", r"\d"), ("w", r"\w"), ("s", r"\s")):
        cps = [ord(ch) for ch in re.findall(pat, allc)]
        out[name] = _to_ranges(cps)
    return out


def _to_ranges(cps):
    rs = []
    for cp in cps:
        if rs and rs[-1][1] == cp - 1:
            rs[-1][1] = cp
        else:
            rs.append([cp, cp])
    return rs


# ------------------------------------------------------------------------------------------------
# running real pregex code

def _resolve(path):
    mod, _, attr = path.partition(":")
    m = importlib.import_module(mod)
    o = m
    for part in attr.split("."):
        if part:
            o = getattr(o, part)
    return o


@task
def build_patterns(payload):
    """payload: {exprs: [python expression strings]}; each is evaluated with the pregex namespace and its
    str() (or the raised exception's class name) is returned."""
    ns = pregex_ns()
    out = []
    for e in payload["exprs"]:
        try:
            v = eval(e, ns)
            out.append({"pattern": str(v), "type": str(v._get_type()) if hasattr(v, "_get_type") else None})
        except BaseException as ex:
            out.append({"exception": type(ex).__name__, "msg": str(ex)[:200]})
    return out


class Unfaithful(Exception):
    """a concrete value of the verifier cannot be rebuilt as an equivalent run-time value"""


def _unjson(a):
    if isinstance(a, list):
        return [_unjson(x) for x in a]
    if isinstance(a, dict) and "__cls__" in a:
        # an instance of the class layer with the same pattern, verbose text and flag
        import pregex.core.classes as cl
        verbose, neg = a["__cls__"]
        cands = [lambda: cl.Any(), lambda: cl.AnyWordChar(is_global=True), lambda: cl.AnyButWordChar(is_global=True),
                 lambda: getattr(cl, "__Class")(verbose, neg)]
        for mk in cands:
            try:
                o = mk()
            except Exception:
                continue
            if str(o) == a["__pregex__"] and o._get_verbose_pattern() == verbose and o._Class__is_negated == neg:
                return o
        raise Unfaithful()
    if isinstance(a, dict) and "__pregex__" in a:
        from pregex.core.pre import Pregex
        return Pregex(a["__pregex__"], escape=False)
    return a


def _describe(v):
    if hasattr(v, "_get_type"):
        d = {"pattern": str(v), "type": str(v._get_type()).split(".")[-1], "repeatable": bool(v._is_repeatable())}
        if hasattr(v, "_get_verbose_pattern"):
            d["class"] = {"negated": bool(v._Class__is_negated), "verbose": v._get_verbose_pattern()}
        return d
    return {"value": v}


@task
def compare_matches(payload):
    """items: [(pattern1, pattern2, [texts])] -> per item the first text on which re.finditer (MULTILINE|DOTALL) yields
    different spans / captured groups for the two patterns (match PRIORITY matters here: greedy vs lazy, alternation order),
    or None"""
    out = []
    for p1, p2, texts in payload["items"]:
        try:
            r1, r2 = re.compile(p1, re.M | re.S), re.compile(p2, re.M | re.S)
        except re.error as e:
            out.append({"error": str(e)})
            continue
        diff = None
        for t in texts:
            a = [(m.span(), m.groups()) for m in r1.finditer(t)]
            b = [(m.span(), m.groups()) for m in r2.finditer(t)]
            if a != b:
                diff = {"text": t, "first": [list(x[0]) for x in a][:6], "second": [list(x[0]) for x in b][:6]}
                break
        out.append(diff)
    return out


@task
def fixed_width(payload):
    """R6 on a constant: does `re` accept the text as a look-behind body (one fixed width)?"""
    try:
        re.compile("(?<=" + payload["text"] + ")")
        return True
    except re.error as e:
        return "look-behind requires fixed-width pattern" not in str(e)


@task
def call_concrete(payload):
    """a function of the package applied to concrete arguments"""
    from pvc import bex_contract
    try:
        args = {k: _unjson(v) for k, v in payload["args"].items()}
    except Unfaithful:
        return {"unfaithful": True}
    try:
        return _describe(bex_contract.call_real(payload["qualname"], args))
    except BaseException as ex:
        return {"exception": type(ex).__name__, "msg": str(ex)[:200]}


@task
def construct(payload):
    """the real constructor `module.cls` applied to concrete arguments (JSON values): text, inferred type and
    repeatability of the instance, or the class name of the exception it raises"""
    mod = importlib.import_module(payload["module"])
    cls = getattr(mod, payload["cls"])
    try:
        try:
            args, kwargs = _unjson(payload.get("args", [])), {k: _unjson(x) for k, x in payload.get("kwargs", {}).items()}
        except Unfaithful:
            return {"unfaithful": True}
        v = cls(*args, **kwargs)
        return _describe(v)
    except BaseException as ex:
        return {"exception": type(ex).__name__, "msg": str(ex)[:200]}


def pregex_ns():
    ns = {}
    for m in ("pregex.core.pre", "pregex.core.classes", "pregex.core.tokens", "pregex.core.operators",
              "pregex.core.quantifiers", "pregex.core.groups", "pregex.core.assertions", "pregex.core.exceptions",
              "pregex.meta.essentials"):
        mod = importlib.import_module(m)
        for k in dir(mod):
            if not k.startswith("_"):
                ns[k] = getattr(mod, k)
    ns["QOptional"] = importlib.import_module("pregex.core.quantifiers").Optional
    ns["re"] = re
    return ns


@task
def run_module(payload):
    """Generic entry: {module: 'pvc.bex_x', func: 'run', args: {...}} executed natively."""
    m = importlib.import_module(payload["module"])
    return getattr(m, payload["func"])(**payload.get("args", {}))


@task
def match_at(payload):
    """Can `pattern` (MULTILINE|DOTALL) match exactly v at offset len(u) of the text u+v+w ?  cases: [[u,v,w],...]"""
    out = []
    for pat, cases in payload["items"]:
        res = []
        for u, v, w in cases:
            text = u + v + w
            try:
                rx = re.compile("(?:%s)(?=.{%d}\\Z)" % (pat, len(w)), re.M | re.S)
                m = rx.match(text, len(u))
                res.append(bool(m) and m.end() == len(u) + len(v))
            except re.error as e:
                res.append("error: %s" % e)
        out.append(res)
    return out


def serve():
    for line in sys.stdin:
        line = line.strip()
        if not line:
            continue
        try:
            req = json.loads(line)
            res = {"result": TASKS[req["task"]](req.get("payload"))}
        except Exception:
            res = {"error": traceback.format_exc()}
        sys.stdout.write(json.dumps(res, ensure_ascii=True) + "\n")
        sys.stdout.flush()


def main():
    name = sys.argv[1]
    if name == "--serve":
        return serve()
    payload = json.loads(sys.stdin.read() or "null")
    try:
        res = TASKS[name](payload)
    except Exception:
        traceback.print_exc()
        sys.exit(2)
    sys.stdout.write(json.dumps(res, ensure_ascii=True))


if __name__ == "__main__":
    main()
