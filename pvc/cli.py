"""python3-vt -m pvc.cli check <ID> [--tier quick|thorough]

exit 0: property held on everything decided (KNOWN-FINDING lines possible); 1: VIOLATION lines; 2: some obligation
undecided (solver unknown) and no violation; 3: checker limitation / internal error (never a verdict)."""
import argparse, importlib, os, sys, traceback
from .common import Report, CheckerError, LibraryCrash, EXIT_CHECKER
from . import smt

LEVELS = {}


def main():
    ap = argparse.ArgumentParser()
    ap.add_argument("cmd", choices=["check"])
    ap.add_argument("prop")
    ap.add_argument("--tier", default=os.environ.get("VERIF_TIER") or "quick", choices=["quick", "thorough"])
    a = ap.parse_args()
    if a.tier == "thorough" and not os.environ.get("PVC_CROSS_EVERY"):
        os.environ["PVC_CROSS_EVERY"] = "25"       # thorough: every 25th discharged obligation re-decided by two other solver builds
    mod = importlib.import_module(f"pvc.checks.{a.prop.lower()}")
    rep = Report(a.prop, a.tier, getattr(mod, "LEVEL", "proof"))
    try:
        mod.run(rep, a.tier)
        rc = rep.finish()
    except LibraryCrash as e:
        # the library itself died of an unrelated error inside a stand-in: reported as a violation (C03's subject, and a failure
        # of whatever property the stand-in was exercising), never as a broken checker
        rep.violation(f"library crash inside {e.task}: {e.exc_line}", {"stand_in": e.task, "exception": e.exc_line, "innermost_frame": e.where,
                      "note": "an exception that is not one of the library's own classes was raised inside src/pregex while the "
                              "stand-in exercised it; the run was abandoned at that point"}, None, no_input=True)
        rc = rep.finish()
    except CheckerError as e:
        print(f"CHECKER-ERROR property={a.prop}: {e}")
        rc = EXIT_CHECKER
    except Exception:
        traceback.print_exc()
        print(f"CHECKER-ERROR property={a.prop}: internal error")
        rc = EXIT_CHECKER
    finally:
        smt.cleanup()
        from .common import NativeServer
        NativeServer.stop()
    sys.exit(rc)


if __name__ == "__main__":
    main()
