"""Loops and try/except for the symbolic executor.

* iteration over a sequence of concrete length is unrolled;
* a loop with an invariant in the function's contract is cut at the invariant (unbounded: all iterations);
* a `for` over a symbolic sequence inside a generator whose body keeps no state between iterations and yields
  exactly once is a map: the generator denotes the sequence k -> yielded value (derived invariant, E9);
* anything else is a checker limitation (the contract then falls back to its bounded stand-in)."""
import ast, z3
from .values import *
from .values import Unknown
from .symex import (Limitation, PathEnd, ReturnExc, RaiseExc, BreakExc, ContinueExc, Frame, SetV, CharV, CharPair,
                    simplify_bool, TermDict)


def assigned_names(body):
    out = []

    def tgt(t):
        if isinstance(t, ast.Name):
            if t.id not in out:
                out.append(t.id)
        elif isinstance(t, (ast.Tuple, ast.List)):
            for e in t.elts:
                tgt(e)
        elif isinstance(t, ast.Subscript):
            b = t.value
            while isinstance(b, ast.Subscript):
                b = b.value
            if isinstance(b, ast.Name) and b.id not in out:
                out.append(b.id)

    class Vis(ast.NodeVisitor):
        def visit_Assign(self, n):
            for t in n.targets:
                tgt(t)
            self.generic_visit(n)

        def visit_AugAssign(self, n):
            tgt(n.target)
            self.generic_visit(n)

        def visit_For(self, n):
            tgt(n.target)
            self.generic_visit(n)

        def visit_Call(self, n):
            f = n.func
            if isinstance(f, ast.Attribute) and isinstance(f.value, ast.Name) and f.attr in (
                    "append", "pop", "update", "add", "extend", "remove"):
                if f.value.id not in out:
                    out.append(f.value.id)
            self.generic_visit(n)

        def visit_FunctionDef(self, n):
            return

        def visit_Lambda(self, n):
            return

    v = Vis()
    for s in body:
        v.visit(s)
    return out


def loop_ordinals(fi):
    """loops of a function numbered by syntactic position (line order), nested functions excluded"""
    idx = getattr(fi, "_loop_idx", None)
    if idx is None:
        from .extract import walk_own
        loops = sorted((n for n in walk_own(fi.node) if isinstance(n, (ast.For, ast.While))), key=lambda n: (n.lineno, n.col_offset))
        idx = {id(n): i + 1 for i, n in enumerate(loops)}
        fi._loop_idx = idx
    return idx


def loop_spec(eng, fr, node=None):
    """the contract's description of the loop being entered (by syntactic ordinal within the function), or None"""
    fi = fr.func
    if fi is None:
        return None
    c = eng.contracts.get(getattr(fi, "qualname", None)) or {}
    loops = c.get("loops") or {}
    if not loops or node is None:
        return None
    return loops.get(loop_ordinals(fi).get(id(node)))


def havoc(eng, path, v, name):
    """a fresh value of the same python-level kind"""
    if isinstance(v, bool) or (is_sym(v) and z3.is_bool(v)):
        return eng.fresh(name, BoolS)
    if isinstance(v, int) or (is_sym(v) and z3.is_int(v)):
        return eng.fresh(name, IntS)
    if is_strv(v):
        return SStr([Atom(eng.fresh(name, StrS), "opq")])
    if isinstance(v, TermList):
        return TermList(eng.fresh(name, L))
    if isinstance(v, TermDict):
        return TermDict(eng.fresh(name, L))
    if isinstance(v, CharV):
        return CharV(eng.fresh(name, IntS))
    if isinstance(v, MapList):
        return v.fresh(eng, name)
    if isinstance(v, tuple):
        return tuple(havoc(eng, path, x, f"{name}_{i}") for i, x in enumerate(v))
    if v is None:
        return None
    if isinstance(v, Obj) and v.kind == "pregex":
        from .specsym import new_pregex, make_value
        if "_Class__is_negated" in path.fields(v):
            # an instance of the class layer: any negation flag, any text; its inferred type is whatever the invariant allows
            obj = make_value(eng, path, name, "classobj", "classobj:Class")
            path.fields(obj)["_Pregex__type"] = Unknown("inferred type of a class (loop-modified)")
            return obj
        ty = path.resolved(path.fields(v).get("_Pregex__type"))
        tname = getattr(ty, "name", None)
        if tname is None:
            raise Limitation(f"cannot havoc {name}: its inferred type is not determined")
        return new_pregex(eng, path, name, tname, cls=v.cls if not isinstance(v.cls, str) else None)
    raise Limitation(f"cannot havoc loop variable {name} of value {v!r}")


def havoc_kind(eng, path, v, name, spec):
    kinds = (spec or {}).get("kinds") or {}
    from .symex import SymSet
    if isinstance(v, SymSet) and isinstance(v.seq, MapList):
        return SymSet(havoc_kind(eng, path, v.seq, name, spec))      # a set as a list in arbitrary order (E7)
    if isinstance(v, MapList) and name in kinds:
        from .values import fresh_maplist
        n = eng.fresh(name + "_len", IntS)
        path.assume(n >= 0)
        return fresh_maplist(eng, name, kinds[name], n)
    r = havoc(eng, path, v, name)
    if isinstance(r, MapList):
        path.assume(r.length >= 0)
    return r


def run_for(eng, node, fr, path):
    if node.orelse:
        raise Limitation("for-else")
    it = eng.ev(node.iter, fr, path)
    spec = loop_spec(eng, fr, node)
    if isinstance(it, SetV):
        # iteration order of a set is arbitrary (E7): the contract must say the loop is order-independent
        if spec is not None and spec.get("set_order") == "any":
            items = list(it.items)
            perm = spec.get("perm")
            if perm is not None:
                items = [items[i] for i in perm(len(items))]
            it = items
        else:
            raise Limitation("iteration over a set without an order-independence clause in the contract")
    if isinstance(it, dict):
        it = list(it.keys())
    if isinstance(it, str):
        it = list(it)
    from .symex import AbsSet
    if isinstance(it, AbsSet):
        it = it.materialise(eng, path)      # some enumeration of the abstract set
        if isinstance(node.iter, ast.Name):
            fr.env[node.iter.id] = it       # invariants name the iterated list
    if isinstance(it, (list, tuple, range)):
        for x in list(it):
            eng.assign(node.target, x, fr, path)
            try:
                eng.run_body(node.body, fr, path)
            except BreakExc:
                break
            except ContinueExc:
                continue
        return
    if isinstance(it, TermList) and spec is not None and spec.get("fold") == "CAPPOS" and "inv" in spec:
        return fold_cappos(eng, node, fr, path, it, spec)
    if isinstance(it, (SymSeq, MapList)):
        if spec is not None and "inv" in spec:
            return cut_for(eng, node, fr, path, it, spec)
        if path.yields is not None:
            return map_loop(eng, node, fr, path, it)
        raise Limitation(f"loop over a symbolic sequence without an invariant (line {node.lineno})")
    raise Limitation(f"for over {it!r}")


def subst_value(v, k, k2):
    if is_sym(v):
        return z3.substitute(v, (k, k2))
    if isinstance(v, SStr):
        return SStr([p if isinstance(p, str) else Atom(z3.substitute(p.term, (k, k2)), p.tag, p.info) for p in v.pieces])
    if isinstance(v, tuple):
        return tuple(subst_value(x, k, k2) for x in v)
    if isinstance(v, TermList):
        return TermList(z3.substitute(v.term, (k, k2)))
    if isinstance(v, TermDict):
        return TermDict(z3.substitute(v.term, (k, k2)))
    if isinstance(v, CharV):
        return CharV(subst_value(v.code, k, k2))
    return v


def map_loop(eng, node, fr, path, it):
    if path.yields:
        raise Limitation("yields before a mapped loop")
    mods = [n for n in assigned_names(node.body)]
    outer = [n for n in mods if n in fr.env]
    k = eng.fresh("k", IntS)
    snapshot = {n: fr.env[n] for n in outer}
    eng.assign(node.target, it.getter(k), fr, path)
    saved = path.yields
    path.yields = []
    npc = len(path.pc)
    try:
        eng.run_body(node.body, fr, path)
    except (BreakExc, ContinueExc):
        raise Limitation("break/continue in a mapped loop")
    ys = path.yields
    path.yields = saved
    if len(ys) != 1:
        raise Limitation(f"mapped loop yields {len(ys)} values per iteration")
    # the body must not carry state: variables that existed before must be unchanged
    for n in outer:
        if fr.env[n] is not snapshot[n]:
            raise Limitation(f"mapped loop modifies outer variable {n}")
    # path conditions added inside the body must not mention k (uniform branches only)
    for ci in range(npc, len(path.pc)):
        c = path.pc[ci]
        if ci in path.decision_idx and mentions(c, k):
            raise Limitation("branch inside a mapped loop depends on the element")
    y = boxed_if_complex(ys[0])
    path.yields = SymSeq(it.length, lambda i, y=y, k=k: subst_value(y, k, zterm(i)), "yields")
    path.yields.skolem = k          # facts about the generic element are in the path condition under this index
    path.notes.append(("map_loop", node.lineno))


def boxed_if_complex(y):
    from .symex import FiltSeq
    if isinstance(y, (SymSeq, FiltSeq, TermList, TermDict)) or hasattr(y, "box"):
        return box(y)
    if isinstance(y, tuple):
        return tuple(boxed_if_complex(x) for x in y)
    return y


def mentions(t, k):
    seen = set()
    stack = [t]
    while stack:
        x = stack.pop()
        if x.get_id() in seen:
            continue
        seen.add(x.get_id())
        if x.eq(k):
            return True
        stack.extend(x.children())
    return False


def eval_inv(eng, spec, key, fr, path, extra):
    from .vc import eval_spec
    env = dict(fr.env)
    env["ARGS"] = getattr(fr, "args0", {})
    env.update(extra)
    return eng.truth(eval_spec(eng, spec[key], env, path, fr.func), path)


def cut_for(eng, node, fr, path, it, spec):
    mods = [n for n in assigned_names(node.body) if n in fr.env]
    name = f"{fr.func.qualname}: loop@{node.lineno}"
    entry = dict(fr.env)
    g0 = eval_inv(eng, spec, "inv", fr, path, {"K": 0, "SEQ": it, "ENTRY": entry})
    path.oblige(f"{name}: invariant holds on entry", zterm(g0), {"kind": "loop-init"})
    which = path.choose([("iterate", True), ("exit", True)], f"loop@{node.lineno}")
    for n in mods:
        fr.env[n] = havoc_kind(eng, path, fr.env[n], n, spec)
    if which == 0:
        k = eng.fresh("K", IntS)
        path.assume(z3.And(k >= 0, k < it.length))
        path.assume(zterm(eval_inv(eng, spec, "inv", fr, path, {"K": k, "SEQ": it, "ENTRY": entry})))
        eng.assign(node.target, it.getter(k), fr, path)
        fr.env["K_OUTER"] = k          # ghost: the iteration index, for the invariants of loops nested in the body
        try:
            eng.run_body(node.body, fr, path)
        except ContinueExc:
            pass
        except BreakExc:
            return
        g = eval_inv(eng, spec, "inv", fr, path, {"K": k + 1, "SEQ": it, "ENTRY": entry})
        path.oblige(f"{name}: invariant preserved", zterm(g), {"kind": "loop-step"})
        raise PathEnd("loop body checked")
    path.assume(zterm(eval_inv(eng, spec, "inv", fr, path, {"K": it.length, "SEQ": it, "ENTRY": entry})))


def fold_cappos(eng, node, fr, path, it, spec):
    """`for (group, start, end) in <list built by CAPPOS(match, include_empty, relative, N)>`: the list is defined by recursion
    on the group counter J = 1..N (entry J is appended iff it is kept), so the loop is cut on J: the invariant may mention J
    (entries of the groups 1..J have been processed); the body runs for an arbitrary kept entry J"""
    from . import remodel as RM
    from .specsym import cappos_entry
    t = it.term
    if not (z3.is_app(t) and t.decl().name() == "CAPPOS" and t.num_args() == 7):
        raise Limitation("fold loop over a list that is not an application of CAPPOS")
    pat, fl, tx, k, ie, rel, n = [t.arg(i) for i in range(7)]
    mods = [x for x in assigned_names(node.body) if x in fr.env]
    name = f"{fr.func.qualname}: loop@{node.lineno}"
    entry = dict(fr.env)
    path.assume(n >= 0)
    g0 = eval_inv(eng, spec, "inv", fr, path, {"J": 0, "ENTRY": entry})
    path.oblige(f"{name}: invariant holds on entry", zterm(g0), {"kind": "loop-init"})
    which = path.choose([("iterate", True), ("exit", True)], f"loop@{node.lineno}")
    for x in mods:
        fr.env[x] = havoc_kind(eng, path, fr.env[x], x, spec)
    if which == 0:
        j = eng.fresh("J", IntS)
        path.assume(z3.And(j >= 1, j <= n))
        path.assume(zterm(eval_inv(eng, spec, "inv", fr, path, {"J": j - 1, "ENTRY": entry})))
        keep, none, sval, st_, en_ = cappos_entry(pat, fl, tx, k, ie, rel, j)
        m = RM.MatchV(RM.Matches(SStr([Atom(pat, "opq")]), fl, SStr([Atom(tx, "opq")])), k) if False else None
        # R5: a participating group lies inside its match, which lies inside the text; a non-participating one has span (-1, -1)
        a = (pat, fl, tx, k)
        ms, me = RM.MSTART(*a), RM.MEND(*a)
        gs, ge = RM.GS(*a, j), RM.GE(*a, j)
        path.assume(z3.And(ms >= 0, ms <= me, me <= z3.Length(tx)))
        path.assume(z3.If(none, z3.And(gs == -1, ge == -1), z3.And(ms <= gs, gs <= ge, ge <= me)))
        if path.branch(keep, f"kept@{node.lineno}"):
            eng.assign(node.target, (RM.OptStr(none, sval), st_, en_), fr, path)
            fr.env["J_INNER"] = j
            try:
                eng.run_body(node.body, fr, path)
            except ContinueExc:
                pass
            except BreakExc:
                raise Limitation("break in a fold loop")
        g = eval_inv(eng, spec, "inv", fr, path, {"J": j, "ENTRY": entry})
        path.oblige(f"{name}: invariant preserved", zterm(g), {"kind": "loop-step"})
        raise PathEnd("loop body checked")
    path.assume(zterm(eval_inv(eng, spec, "inv", fr, path, {"J": n, "ENTRY": entry})))


def run_while(eng, node, fr, path):
    if node.orelse:
        raise Limitation("while-else")
    spec = loop_spec(eng, fr, node)
    if spec is None or "inv" not in spec:
        # concrete loops: run while the guard is decided
        n = 0
        while True:
            c = eng.truth(eng.ev(node.test, fr, path), path)
            if not isinstance(c, bool):
                raise Limitation(f"while loop without an invariant (line {node.lineno})")
            if not c:
                return
            n += 1
            if n > 10000:
                raise Limitation("concrete while loop does not terminate")
            try:
                eng.run_body(node.body, fr, path)
            except BreakExc:
                return
            except ContinueExc:
                continue
    mods = [n for n in assigned_names(node.body) if n in fr.env]
    name = f"{fr.func.qualname}: loop@{node.lineno}"
    entry = dict(fr.env)
    g0 = eval_inv(eng, spec, "inv", fr, path, {"ENTRY": entry})
    path.oblige(f"{name}: invariant holds on entry", zterm(g0), {"kind": "loop-init"})
    which = path.choose([("iterate", True), ("exit", True)], f"loop@{node.lineno}")
    for n in mods:
        fr.env[n] = havoc_kind(eng, path, fr.env[n], n, spec)
    path.assume(zterm(eval_inv(eng, spec, "inv", fr, path, {"ENTRY": entry})))
    guard = eng.truth(eng.ev(node.test, fr, path), path)
    if which == 0:
        path.assume(zterm(guard))
        var0 = None
        if "variant" in spec:
            from .vc import eval_spec
            var0 = eval_spec(eng, spec["variant"], dict(fr.env), path, fr.func)
        try:
            eng.run_body(node.body, fr, path)
        except ContinueExc:
            pass
        except BreakExc:
            return
        g = eval_inv(eng, spec, "inv", fr, path, {"ENTRY": entry})
        path.oblige(f"{name}: invariant preserved", zterm(g), {"kind": "loop-step"})
        if var0 is not None:
            from .vc import eval_spec
            var1 = eval_spec(eng, spec["variant"], dict(fr.env), path, fr.func)
            path.oblige(f"{name}: variant decreases", lex_less(var1, var0), {"kind": "loop-variant"})
        raise PathEnd("loop body checked")
    path.assume(zterm(eng.not_(guard)))


def lex_less(a, b):
    """lexicographic decrease of tuples of non-negative ints (or a single int)"""
    if not isinstance(a, tuple):
        a, b = (a,), (b,)
    terms = []
    for i in range(len(a)):
        eqs = [zterm(a[j]) == zterm(b[j]) for j in range(i)]
        terms.append(z3.And(*(eqs + [zterm(a[i]) < zterm(b[i]), zterm(b[i]) >= 0])))
    return z3.Or(*terms)


def run_try(eng, node, fr, path):
    if node.finalbody or node.orelse:
        raise Limitation("try with else/finally")
    try:
        eng.run_body(node.body, fr, path)
    except RaiseExc as e:
        for h in node.handlers:
            names = []
            if h.type is None:
                names = None
            else:
                t = eng.ev(h.type, fr, path)
                ts = t if isinstance(t, tuple) else (t,)
                names = [getattr(x, "name", None) for x in ts]
            if names is None or e.cls_name in [n.split(".")[-1] for n in names if n]:
                if h.name:
                    fr.env[h.name] = e.obj
                eng.run_body(h.body, fr, path)
                return
        raise
