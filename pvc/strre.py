"""Constant regexes applied to symbolic strings by the code under verification (name validation, group-prefix
surgery): translated to the solver's regex theory through the same front end as rx2smt (CPython's parser)."""
import z3
from .values import *
from .symex import Limitation, simplify_bool
from . import rx2smt as R
from .common import native_fast

Z3MAX = 0x2FFFF
_cache = {}


def parsed(pattern, flags=0):
    k = (pattern, int(flags))
    if k not in _cache:
        r = native_fast("parse", {"patterns": [pattern], "flags": int(flags)})[0]
        if "error" in r:
            raise Limitation(f"constant regex {pattern!r} does not parse: {r['error']}")
        _cache[k] = r["tree"]
    return _cache[k]


def universe():
    return ((0, Z3MAX),)


def to_z3(r):
    t = r[0]
    if t == 'cs':
        parts = []
        for a, b in r[1]:
            b = min(b, Z3MAX)
            if a > Z3MAX:
                continue
            parts.append(z3.Range(zchr(a), zchr(b)) if a != b else z3.Re(zchr(a)))
        if not parts:
            return z3.Empty(z3.ReSort(StrS))
        return parts[0] if len(parts) == 1 else z3.Union(*parts)
    if t == 'eps':
        return z3.Re(z3.StringVal(""))
    if t == 'none':
        return z3.Empty(z3.ReSort(StrS))
    if t == 'cat':
        return z3.Concat(*[to_z3(x) for x in r[1]])
    if t == 'alt':
        return z3.Union(*[to_z3(x) for x in r[1]])
    if t == 'star':
        return z3.Star(to_z3(r[1]))
    if t == 'loop':
        _, x, lo, hi = r
        zx = to_z3(x)
        if hi is None:
            return z3.Concat(z3.Loop(zx, lo, lo), z3.Star(zx)) if lo > 0 else z3.Star(zx)
        return z3.Loop(zx, lo, hi)
    raise Limitation(f"regex node {t} in a constant regex")


def zchr(cp):
    return z3.StringVal(chr(cp))


def plain_regex(pattern, flags=0):
    tree = parsed(pattern, flags)
    p = R.pure(tree, R.Ctx(universe()))
    if p is None:
        raise Limitation(f"constant regex {pattern!r} contains zero-width items")
    return p


_langs = []     # (regex AST, predicate symbol)


def lang_pred(eng, ast_):
    """an uninterpreted predicate 'the string is in L' per regular LANGUAGE (not per regex text): two constant regexes
    with the same language share the predicate - language equality is decided by the derivative-product procedure.
    For a language that differs from an already registered one a distinguishing string is recorded as a replay hint."""
    U = universe()
    for a, sym in _langs:
        ok1, cex1, _ = R.included(a, ast_, U, limit=50000)
        ok2, cex2, _ = R.included(ast_, a, U, limit=50000) if ok1 else (False, None, 0)
        if ok1 and ok2:
            return sym
        cex = cex1 if not ok1 else cex2
        if cex is not None:
            eng.hints.setdefault("distinguishing_strings", [])
            w = "".join(chr(c) for c in cex)
            if w not in eng.hints["distinguishing_strings"]:
                eng.hints["distinguishing_strings"].append(w)
    sym = z3.Function(f"in_lang_{len(_langs)}", StrS, BoolS)
    _langs.append((ast_, sym))
    return sym


def const_fullmatch(eng, path, pattern, text, flags):
    if isinstance(text, str):
        import re
        return re.fullmatch(pattern, text, int(flags)) is not None
    return lang_pred(eng, plain_regex(pattern, flags))(str_term(text))


def const_match(eng, path, pattern, text, flags):
    """re.match(const, text) is not None.  Decided structurally on the concrete leading characters of the text by
    derivatives of the constant regex; the solver's regex theory is only asked when a symbolic piece is reached while
    the residual language is neither empty nor universal."""
    U = universe()
    allU = R.star(R.cs(U))
    r = R.cat(plain_regex(pattern, flags), allU)
    pieces = [text] if isinstance(text, str) else list(text.pieces)
    for pi, p in enumerate(pieces):
        if isinstance(p, str):
            for ch in p:
                r = R.deriv(r, ord(ch))
                if r == R.NONE:
                    return False
        else:
            ok, _, _ = R.included(allU, r, U, limit=20000)
            if ok:
                return True
            rest = mkstr(*pieces[pi:])
            return simplify_bool(z3.InRe(str_term(rest), to_z3(r)))
    return R.nullable(r)


def const_sub(eng, path, pattern, repl, text, count, flags):
    """re.sub(const, repl, text, count=1) where the first match is decided structurally: the text begins with pieces
    that the regex matches as  LITERAL-PREFIX  [^c]*  c   (the group-prefix regexes of capture()/group())."""
    if isinstance(text, str) and isinstance(repl, str):
        import re
        return re.sub(pattern, repl, text, count=count if isinstance(count, int) else 0, flags=int(flags))
    if count != 1:
        raise Limitation("re.sub without count=1 on a symbolic string (all-occurrence substitution)")
    tree = parsed(pattern, flags)
    pieces = list(text.pieces) if isinstance(text, SStr) else [text]
    # walk the regex items over the leading pieces
    pos = 0          # piece index
    off = 0          # offset inside a concrete piece
    consumed = []

    def cur_char():
        nonlocal pos, off
        while pos < len(pieces) and isinstance(pieces[pos], str) and off >= len(pieces[pos]):
            pos += 1
            off = 0
        if pos >= len(pieces):
            return None
        return pieces[pos][off] if isinstance(pieces[pos], str) else pieces[pos]

    ctx = R.Ctx(universe())
    for op, av in tree:
        s = R.item_charset(op, av, ctx)
        if s is not None:
            c = cur_char()
            if not isinstance(c, str) or not R.cs_contains(s, ord(c)):
                raise Limitation("re.sub: the regex does not match at the start of the text structurally")
            off += 1
        elif op in ("MAX_REPEAT",) and av[0] == 0 and av[1] is None and len(av[2]) == 1:
            inner = R.item_charset(av[2][0][0], av[2][0][1], ctx)
            if inner is None:
                raise Limitation("re.sub: unsupported repeat body")
            while True:
                c = cur_char()
                if isinstance(c, str):
                    if R.cs_contains(inner, ord(c)):
                        off += 1
                        continue
                    break
                if c is None:
                    break
                # a symbolic piece: it must lie wholly inside inner* (its declared language says so)
                lang = (c.info or {}).get("lang") if isinstance(c.info, dict) else None
                if lang is None:
                    raise Limitation("re.sub: repeat meets a symbolic piece of unknown language")
                ok, cex, _ = R.included(lang, R.star(R.cs(inner)), universe())
                if not ok:
                    raise Limitation("re.sub: a symbolic piece may leave the repeated class: " + "".join(map(chr, cex)))
                pos += 1
                off = 0
        else:
            raise Limitation(f"re.sub: regex item {op}")
    # everything before (pos, off) is replaced
    rest = []
    if pos < len(pieces):
        if isinstance(pieces[pos], str):
            rest.append(pieces[pos][off:])
            rest.extend(pieces[pos + 1:])
        else:
            rest.extend(pieces[pos:])
    return mkstr(repl, *rest)
