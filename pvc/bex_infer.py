"""B1 - bounded stand-in for the contract of Pregex.__infer_type (DESIGN 7/B1).  Native (real pregex, CPython 3.12).

Contract (what every combinator's proof assumes as the class invariant Inv of its operands and must re-establish for
its result): for every text t the DSL emits from operands that satisfy Inv, __infer_type(t) terminates and returns
(type, repeatable) with

  type == Empty  <=>  t == ''
  type in {Class, Token, Group}            ==>  t is an ATOM   (a quantifier appended to t binds all of t, and t can be
                                                                spliced between neighbours)
  type in {Quantifier, Other, Assertion}   ==>  t can be spliced between neighbours (it is not a bare alternation)
  t is a DIRECT result of match_at_* / followed_by / preceded_by / enclosed_by    ==>  not repeatable
  t contains no anchor and no positive look-around anywhere                     ==>  repeatable

Categories are decided by CPython's own parser (non-optimising alternation parser): qsafe(t) iff
tree(t{7}) == [REP(7,7,tree(t))], csafe(t) iff tree(X t Y) == [X] + tree(t) + [Y].

Domain: ONE DSL step (every unary method with sample arguments, every binary method) applied to operands drawn from a
pool of leaves, then a second step on a sample of the results.  Bounded: the pool and the depth are stated in the
evidence; nothing here is counted as proved."""
import itertools, multiprocessing, random, re, sys, time
from . import native as N

ALPHA = ["\\", "^", "$", "(", ")", "[", "]", "{", "}", "?", "+", "*", ".", "|", "/", "-", ",", "a", "b", "w", "d", "A", "Z",
         "0", "1", "\n", "é", " ", ":", "<", ">", "=", "!", "P", "i"]
ALPHA_Q = ["\\", "^", "$", "(", ")", "[", "]", "{", "}", "?", "+", "*", ".", "|", "/", "-", "a", "b", "A", "Z", "1", "\n", "é"]

CLASS_LEAVES = [
    "AnyLetter()", "AnyDigit()", "AnyButDigit()", "AnyWordChar()", "AnyWordChar(is_global=True)", "AnyButWordChar(is_global=True)",
    "Any()", "AnyWhitespace()", "AnyButWhitespace()", "AnyPunctuation()", "AnyFrom('a')", "AnyFrom('a', 'b')",
    "AnyFrom('\\\\')", "AnyBetween('A', '\\\\')", "AnyFrom('a', '\\\\')", "AnyFrom('(', ')')", "AnyFrom('(')", "AnyFrom(')')",
    "AnyFrom('|', 'x')", "AnyFrom('^', 'x')", "AnyFrom('-', 'x')", "AnyFrom('\\n', '(')", "AnyFrom(']', 'x')", "AnyFrom('[', 'x')",
    "AnyFrom('[', ']')", "AnyButFrom('(', '|')", "AnyButFrom('\\\\', 'q')", "AnyFrom('?', '*', '+')", "AnyFrom('{', '}')",
    "AnyFrom('$', 'x')", "AnyFrom('.', 'x')", "AnyBetween('!', '/')", "AnyFrom(Backslash(), 'x')", "AnyFrom(Newline())",
    "AnyGermanLetter()", "AnyButFrom('a')",
]
TOKEN_LEAVES = ["Backslash()", "Newline()", "Dollar()", "Tab()", "Space()", "Euro()", "Copyright()"]
OTHER_LEAVES = ["Pregex()", "WordBoundary()", "NonWordBoundary()", "Backreference(1)", "Backreference('zz9')",
                "Conditional('zz9', 'a')", "Conditional('zz9', 'a', 'bc')"]

UNARY = [
    ("optional", "{}.optional()"), ("optional_lazy", "{}.optional(False)"), ("indefinite", "{}.indefinite()"),
    ("one_or_more", "{}.one_or_more(False)"), ("exactly2", "{}.exactly(2)"), ("exactly1", "{}.exactly(1)"),
    ("at_least2", "{}.at_least(2)"), ("at_most3", "{}.at_most(3, False)"), ("alam23", "{}.at_least_at_most(2, 3)"),
    ("mul3", "{} * 3"), ("capture", "{}.capture()"), ("capture_named", "{}.capture('nm')"), ("group", "{}.group()"),
    ("group_ci", "{}.group(True)"), ("match_at_start", "{}.match_at_start()"), ("match_at_end", "{}.match_at_end()"),
    ("match_at_line_start", "{}.match_at_line_start()"), ("match_at_line_end", "{}.match_at_line_end()"),
]
DIRECT_UNARY = {"match_at_start", "match_at_end", "match_at_line_start", "match_at_line_end"}
BINARY = [
    ("concat", "{0}.concat({1})"), ("concat_left", "{0}.concat({1}, on_right=False)"), ("either", "{0}.either({1})"),
    ("enclose", "{0}.enclose({1})"), ("followed_by", "{0}.followed_by({1})"), ("preceded_by", "{0}.preceded_by({1})"),
    ("enclosed_by", "{0}.enclosed_by({1})"), ("not_followed_by", "{0}.not_followed_by({1})"),
    ("not_preceded_by", "{0}.not_preceded_by({1})"), ("not_enclosed_by", "{0}.not_enclosed_by({1})"),
]
DIRECT_BINARY = {"followed_by", "preceded_by", "enclosed_by"}

_ns = None
_exc = None


def ns():
    global _ns, _exc
    if _ns is None:
        _ns = N.pregex_ns()
        import pregex.core.exceptions as ex
        _exc = tuple(v for v in vars(ex).values() if isinstance(v, type) and issubclass(v, Exception))
    return _ns


def lit(s):
    return "Pregex(%r)" % s


class Val:
    __slots__ = ("expr", "p", "text", "direct", "anchored", "depth")

    def __init__(self, expr, p, direct, anchored, depth):
        self.expr, self.p, self.text, self.direct, self.anchored, self.depth = expr, p, str(p), direct, anchored, depth


PREFIX = "(?P<zz9>z)"


def parse1(t):
    """parse behind a defined group (so that references to group 1 / 'nm' are not errors); the first item is dropped"""
    N.install_noopt()
    r = N.parse({"patterns": [PREFIX + t]})[0]
    if "tree" in r:
        r = dict(r)
        if t.startswith("|") or r["tree"][0][0] != "SUBPATTERN":
            # the prefix was absorbed by a top-level alternation: category ALT is decided by the context probe anyway
            r["tree"] = [["PREFIXED", r["tree"]]]
        else:
            r["tree"] = r["tree"][1:]
    return r


X0, X1 = "[^]", "[^]"
_cat_cache = {}


def category(t):
    """'EMPTY' | 'ATOM' | 'SPLICE' (csafe, not qsafe) | 'ALT' (not csafe) | 'INVALID'"""
    if t in _cat_cache:
        return _cat_cache[t]
    if t == "":
        r = "EMPTY"
    else:
        base = parse1(t)
        if "error" in base:
            r = "INVALID"
        else:
            bt = base["tree"]
            ctx = parse1(X0 + t + X1)
            csafe = "tree" in ctx and ctx["tree"] == [["NOT_LITERAL", 0xE000]] + bt + [["NOT_LITERAL", 0xE001]]
            if not csafe:
                r = "ALT"
            else:
                q = parse1(t + "{7}")
                qsafe = "tree" in q and q["tree"] == [["MAX_REPEAT", [7, 7, bt]]]
                r = "ATOM" if qsafe else "SPLICE"
    _cat_cache[t] = r
    return r


GROUP_SHAPES = re.compile(r"\((\?:|\?i:|\?P<[A-Za-z_]\w*>|\?=|\?!|\?<=|\?<!|\?\(|\?P=|(?!\?))", re.S)


def adequate(v):
    """list of violated clauses of the contract for value v"""
    import pregex.core.pre as pre
    T = pre._Type
    p = v.p
    t, ty, rep = v.text, p._get_type(), p._is_repeatable()
    bad = []
    cat = category(t)
    if cat == "INVALID":
        bad.append("the emitted text is not a valid regex")
        return bad
    if (ty == T.Empty) != (t == ""):
        bad.append("Empty type iff empty text")
    if ty in (T.Class, T.Token, T.Group) and cat != "ATOM":
        bad.append(f"typed {ty.name} but the text is not an atom ({cat})")
    if ty in (T.Quantifier, T.Other, T.Assertion) and cat == "ALT":
        bad.append(f"typed {ty.name} but the text is a bare alternation")
    if v.direct and rep:
        bad.append("direct anchor / positive look-around result is flagged repeatable")
    if not v.anchored and not rep:
        bad.append("no anchor or positive look-around inside, but flagged non-repeatable")
    return bad


def apply_step(expr, env):
    """returns ('ok', Pregex) | ('libexc', name) | ('crash', repr)"""
    try:
        return "ok", eval(expr, ns(), env)
    except _exc as e:
        return "libexc", type(e).__name__
    except RecursionError as e:
        return "crash", "RecursionError"
    except BaseException as e:
        return "crash", f"{type(e).__name__}: {e}"[:200]


def leaves(tier):
    n = ns()
    out = []
    alpha = ALPHA if tier == "thorough" else ALPHA_Q
    for c in alpha:
        out.append(lit(c))
    for a, b in itertools.product(alpha, repeat=2):
        out.append(lit(a + b))
    if tier == "thorough":
        for a, b, c in itertools.product(ALPHA_Q[:16], repeat=3):
            out.append(lit(a + b + c))
    else:
        for s in ["US$", "a$b", "\\\\\\", "[a]", "(a)", "(?:", "a|b", "(?P<", "^ab", "ab$", "a{2}", "\\A", "\\b", "(?=", "a.c", "x\\]"]:
            out.append(lit(s))
    out += CLASS_LEAVES + TOKEN_LEAVES + OTHER_LEAVES
    vals = []
    for e in out:
        st, p = apply_step(e, {})
        if st == "ok":
            anch = False
            vals.append(Val(e, p, False, anch, 0))
        else:
            vals.append(("LEAF-FAIL", e, st, p))
    return vals


def core_leaves(vals, tier):
    """the reduced operand set for binary steps"""
    keep = []
    for v in vals:
        if isinstance(v, tuple):
            continue
        if v.expr.startswith("Pregex('") or v.expr.startswith('Pregex("'):
            s = eval(v.expr[7:-1])
            if len(s) <= 1 or s in ("ab", "a|", "|a", "a$", "$a", "^a", "a^", "\\\\", "[]", "()", "a)", "(a", "[a", "a]", "{2", "a?",
                                    "?a", "a\n", "\\[", "\\]", "\\(", "\\)", "\\|", "\\$", "US$", "(?:", "a|b", "\\A", "\\b", "é"):
                keep.append(v)
        else:
            keep.append(v)
    return keep


def _work(args):
    kind, items, tier = args
    ns()
    fails, n, seen = [], 0, set()
    results = []
    for item in items:
        if kind == "unary":
            (opname, tmpl), v = item
            expr = tmpl.format("A")
            env = {"A": v.p}
            full = tmpl.format(v.expr)
            direct = opname in DIRECT_UNARY
            anchored = v.anchored or direct
        else:
            (opname, tmpl), a, b = item
            expr = tmpl.format("A", "B")
            env = {"A": a.p, "B": b.p}
            full = tmpl.format(a.expr, b.expr)
            direct = opname in DIRECT_BINARY and b.text != ""
            anchored = a.anchored or b.anchored or direct
        n += 1
        st, r = apply_step(expr, env)
        if st == "crash":
            fails.append({"expr": full, "what": f"crashed with {r} (not a library exception)", "clause": "terminates / documented exception"})
            continue
        if st == "libexc":
            continue
        if direct and opname in DIRECT_BINARY and kind == "binary" and b.text == "":
            direct = False
        v2 = Val(full, r, direct, anchored, 1)
        bad = adequate(v2)
        sig = (r._get_type().name, category(v2.text), r._is_repeatable(), direct, anchored)
        if sig not in seen:
            seen.add(sig)
        for b_ in bad:
            fails.append({"expr": full, "text": v2.text, "type": r._get_type().name, "repeatable": r._is_repeatable(), "what": b_,
                          "clause": b_.split(" but ")[0][:60]})
        if not bad:
            results.append((full, direct, anchored))
    return n, fails, list(seen), results


def run(tier="quick", seed=0, workers=16, max_steps=None):
    t0 = time.time()
    rnd = random.Random(seed)
    vals = leaves(tier)
    leaf_fail = [v for v in vals if isinstance(v, tuple)]
    vals = [v for v in vals if not isinstance(v, tuple)]
    fails = []
    for _, e, st, info in leaf_fail:
        if st == "crash":
            fails.append({"expr": e, "what": f"crashed with {info}", "clause": "terminates / documented exception"})
    n_eval = 0
    good = []
    for v in vals:
        n_eval += 1
        bad = adequate(v)
        for b_ in bad:
            fails.append({"expr": v.expr, "text": v.text, "type": v.p._get_type().name, "repeatable": v.p._is_repeatable(),
                          "what": b_, "clause": b_.split(" but ")[0][:60]})
        if not bad:
            good.append(v)
    vals = good      # operands are drawn only from values that satisfy Inv: a broken leaf is reported once
    core = core_leaves(vals, tier)
    unary_items = [(op, v) for op in UNARY for v in vals]
    binary_items = [(op, a, b) for op in BINARY for a in core for b in core]
    budget = max_steps or (120000 if tier == "quick" else 3000000)
    if len(binary_items) > budget:
        binary_items = rnd.sample(binary_items, budget)

    def chunks(kind, items, k):
        size = max(1, len(items) // k + 1)
        return [(kind, items[i:i + size], tier) for i in range(0, len(items), size)]

    sigs = set()
    depth1 = []
    jobs = chunks("unary", unary_items, workers * 2) + chunks("binary", binary_items, workers * 4)
    with multiprocessing.Pool(workers) as pool:
        for n, f, s, res in pool.imap_unordered(_work, jobs):
            n_eval += n
            fails.extend(f)
            sigs.update(map(tuple, s))
            depth1.extend(res)
        # second step on a sample of depth-1 results
        rnd.shuffle(depth1)
        take = depth1[: (400 if tier == "quick" else 4000)]
        d1vals = []
        for full, direct, anchored in take:
            st, p = apply_step(full, {})
            if st == "ok":
                d1vals.append(Val(full, p, direct, anchored, 1))
        core2 = rnd.sample(core, min(len(core), 40 if tier == "quick" else 120))
        u2 = [(op, v) for op in UNARY for v in d1vals]
        b2 = [(op, a, b) for op in BINARY for a in d1vals for b in core2] + [(op, a, b) for op in BINARY for a in core2 for b in d1vals]
        b2cap = 150000 if tier == "quick" else 2000000
        if len(b2) > b2cap:
            b2 = rnd.sample(b2, b2cap)
        jobs2 = chunks("unary", u2, workers) + chunks("binary", b2, workers * 4)
        for n, f, s, res in pool.imap_unordered(_work, jobs2):
            n_eval += n
            fails.extend(f)
            sigs.update(map(tuple, s))
    # group failures by (clause, shape of the text) to keep the report readable
    groups = {}
    for f in fails:
        g = groups.setdefault(f["what"], {"count": 0, "examples": []})
        g["count"] += 1
        if len(g["examples"]) < 25:
            g["examples"].append({k: f.get(k) for k in ("expr", "text", "type", "repeatable")})
    return {"evaluations": n_eval, "distinct_signatures": len(sigs), "leaves": len(vals), "core_leaves": len(core),
            "failure_groups": groups, "failures": fails[:3000], "n_failures": len(fails), "wall_s": round(time.time() - t0, 1)}
