"""Symbolic executor over the python subset of DESIGN 3.2.

Style: *re-execution with a decision oracle*.  A path is run in direct style by a recursive interpreter; every place
where execution can go more than one way (a branch on a symbolic condition, the outcome of an assumed contract, a
loop cut) asks Path.choose(); the driver (vc.py) re-runs the function once per leaf of the decision tree.  Infeasible
options are pruned with the solver, so a path that is reported is reachable (this is also the cover check).

Calls are replaced by the callee's contract (modular verification); only functions the contract table marks as
`inline` (template base-class constructors, spec helpers, lambdas) are entered.
"""
import ast, z3
from .values import *
from .extract import mangle, FuncInfo, ClassInfo
from .common import CheckerError


class Limitation(CheckerError):
    """construct outside the supported subset"""


class PathEnd(Exception):
    """this path stops here (infeasible assumption, or a loop body that was checked against its invariant)"""

    def __init__(self, why):
        self.why = why


class ReturnExc(Exception):
    def __init__(self, value):
        self.value = value


class RaiseExc(Exception):
    """a python-level exception raised by the code under verification"""

    def __init__(self, cls_name, obj=None, implicit=False, info=None):
        self.cls_name, self.obj, self.implicit, self.info = cls_name, obj, implicit, info


class BreakExc(Exception):
    pass


class ContinueExc(Exception):
    pass


LIB_EXC = {"InvalidArgumentValueException", "InvalidArgumentTypeException", "NotEnoughArgumentsException",
           "InvalidCapturingGroupNameException", "CannotBeNegatedException", "CannotBeUnionedException",
           "CannotBeSubtractedException", "GlobalWordCharSubtractionException", "EmptyClassException",
           "InvalidRangeException", "CannotBeRepeatedException", "NonFixedWidthPatternException",
           "EmptyNegativeAssertionException"}


class Path:
    """state of one execution path"""

    def __init__(self, engine, decisions):
        self.eng = engine
        self.decisions = list(decisions)
        self.taken = []                 # (index, n_feasible, label)
        self.pc = []                    # z3 Bool assumptions
        self.heap = {}                  # oid -> {field: value}
        self.obligations = []           # (name, pc_snapshot(list), goal, meta)
        self.yields = None
        self.writes = []                # (oid, field) attribute stores (frame)
        self.notes = []
        self.solver = z3.Solver()
        self.solver.set("timeout", 10000)
        self.depth = 0
        self.decision_idx = set()
        self.memo = {}                  # results of assumed contracts on this path (functional purity, C20)
        self.forced = {}                # id(Unknown) -> (Unknown, value chosen on this path)
        self.partial = {}               # id(Unknown) -> (Unknown, the candidate values still possible on this path)

    # -- solver --------------------------------------------------------------------------------------
    def assume(self, c):
        if c is True:
            return
        if c is False:
            raise PathEnd("assumption false")
        if z3.is_and(c):
            for ch in c.children():
                self.assume(ch)
            return
        self.pc.append(c)
        if has_quantifier(c):
            # quantified facts (views, well-formedness) are kept for the proof obligations but are not given to the
            # branching solver: feasibility pruning stays ground and fast; an infeasible path explored because of this is
            # harmless (its obligations are discharged under the full path condition)
            return
        self.solver.add(c)

    def _timed(self, what, thunk):
        import os, time
        if not os.environ.get("PVC_DEBUG_SLOW"):
            return thunk()
        t0 = time.time()
        r = thunk()
        if time.time() - t0 > 2:
            open(f"/tmp/slowq_{int(time.time()*1000)%100000}.smt2", "w").write(self.solver.to_smt2())
            print(f"[slow {what} {time.time() - t0:.1f}s -> {r}] assertions={len(self.solver.assertions())} last={str(self.solver.assertions()[-1])[:200] if len(self.solver.assertions()) else ''}", flush=True)
        return r

    def _memo_query(self, thunk):
        """solver answers are computed once per (decision prefix, query ordinal) and reused when the prefix is re-executed:
        the executor is then a deterministic function of the decisions even when a time-out falls differently (busy machine)"""
        cache = getattr(self.eng, "feas_cache", None)
        if cache is None:
            return thunk()
        self.qn = getattr(self, "qn", 0) + 1
        key = ("q", tuple(t[0] for t in self.taken), self.qn)
        if key not in cache:
            cache[key] = thunk()
        return cache[key]

    def sat(self, *extra):
        return self._memo_query(lambda: self._timed("sat " + str(extra)[:300], lambda: self._sat(*extra)))

    def implied(self, c):
        if c is True:
            return True
        return self._memo_query(lambda: self._timed("implied " + str(c)[:300], lambda: self._implied(c)))

    def _sat(self, *extra):
        self.solver.push()
        try:
            for e in extra:
                self.solver.add(e)
            r = self.solver.check()
        finally:
            self.solver.pop()
        if r == z3.unknown:
            # treat as feasible: never prune on unknown
            return True
        return r == z3.sat

    def _implied(self, c):
        """pc |= c ?  (unknown counts as not implied)"""
        if c is False:
            return not self._sat()
        self.solver.push()
        try:
            self.solver.add(z3.Not(c))
            r = self.solver.check()
        finally:
            self.solver.pop()
        return r == z3.unsat

    def model(self, *extra):
        self.solver.push()
        try:
            for e in extra:
                self.solver.add(e)
            if self.solver.check() == z3.sat:
                return self.solver.model()
            return None
        finally:
            self.solver.pop()

    def choose(self, options, label=""):
        """options: list of (name, constraint|True).  Returns the index chosen on this path; only feasible options are
        explored.  The choice is recorded so that the driver can enumerate siblings."""
        # the feasible options of a decision point are computed once per fork and reused when the path prefix is
        # re-executed for a sibling: a solver time-out that falls differently between two runs (busy machine) can then
        # neither skip an option nor make the replay diverge
        cache = getattr(self.eng, "feas_cache", None)
        key = tuple(t[0] for t in self.taken)
        hit = cache.get(key) if cache is not None else None
        feas = None
        if hit is not None:
            if hit[0] != (label, len(options)):
                raise Limitation(f"re-execution reached a different decision point ({label} instead of {hit[0][0]})")
            feas = hit[1]
        if feas is None:
            feas = []
            for i, (nm, c) in enumerate(options):
                if c is True or (c is not False and self.sat(c)):
                    feas.append(i)
            if cache is not None:
                cache[key] = ((label, len(options)), feas)
        if not feas:
            raise PathEnd(f"no feasible option at {label}")
        k = len(self.taken)
        if k < len(self.decisions):
            d = self.decisions[k]
            if d >= len(feas):
                raise Limitation(f"decision replay diverged at {label} (solver answers changed between runs)")
        else:
            d = 0
        self.taken.append((d, len(feas), label))
        i = feas[d]
        c = options[i][1]
        if c is not True:
            self.decision_idx.add(len(self.pc))
            self.assume(c)
        return i

    def branch(self, cond, label=""):
        """python truth value of a (possibly symbolic) condition on this path"""
        b = self.eng.truth(cond, self)
        if isinstance(b, bool):
            return b
        i = self.choose([("T", b), ("F", z3.Not(b))], label)
        return i == 0

    def oblige(self, name, goal, meta=None):
        self.obligations.append((name, list(self.pc), goal, meta))

    # -- heap ----------------------------------------------------------------------------------------
    def fields(self, obj):
        return self.heap.setdefault(obj.oid, {})

    def getf(self, obj, name):
        f = self.fields(obj)
        if name not in f:
            raise Limitation(f"field {name} of {obj!r} is not defined on this path")
        v = f[name]
        if isinstance(v, Unknown) and name in ("_Pregex__type", "_Pregex__repeatable"):
            # the value chosen for an undetermined field is attached to the Unknown itself (per path): copies of the
            # object (class forms take the fields of the method form's result) share the choice
            if id(v) not in self.forced:
                self.forced[id(v)] = (v, self.eng.force_unknown(self, obj, name, v))
            v = self.forced[id(v)][1]
        return v

    def resolved(self, v):
        """the value already chosen on this path for an undetermined field, else the Unknown itself"""
        if isinstance(v, Unknown) and id(v) in self.forced:
            return self.forced[id(v)][1]
        return v

    def setf(self, obj, name, value, frame=True):
        self.fields(obj)[name] = value
        if frame:
            self.writes.append((obj.oid, name))


class Frame:
    def __init__(self, func, env, cls, module, self_obj=None):
        self.func, self.env, self.cls, self.module, self.self_obj = func, env, cls, module, self_obj
        self.loop_ordinal = 0


def _public_method(name):
    """a public method or an operator (dunder) method - not a private helper"""
    return not name.startswith("_") or (name.startswith("__") and name.endswith("__"))


def _is_concrete(a, path=None):
    if isinstance(a, bool) or a is None or isinstance(a, (int, str, float)):
        return True
    if isinstance(a, (list, tuple)):
        return all(_is_concrete(x, path) for x in a)
    if isinstance(a, Obj) and a.kind == "pregex" and path is not None:
        f = path.fields(a)
        return isinstance(f.get("_Pregex__pattern"), str) and isinstance(f.get("_Pregex__repeatable"), bool)
    return False


def concrete_json(a, path):
    """JSON form of a concrete argument; a Pregex with constant text travels as that text (its type and flag are
    what __infer_type gives for it: class invariant)"""
    if isinstance(a, (list, tuple)):
        return [concrete_json(x, path) for x in a]
    if isinstance(a, Obj):
        f = path.fields(a)
        if isinstance(f.get("_Class__verbose"), str) and isinstance(f.get("_Class__is_negated"), bool):
            return {"__cls__": [f["_Class__verbose"], f["_Class__is_negated"]], "__pregex__": f["_Pregex__pattern"]}
        return {"__pregex__": f["_Pregex__pattern"]}
    return a


class Engine:
    def __init__(self, index, contracts, spec_builtins, spec_funcs=None):
        self.index = index
        self.contracts = contracts            # qualname -> contract dict
        self.spec_builtins = spec_builtins    # name -> python callable(engine, path, *values)
        self.spec_funcs = spec_funcs or {}    # name -> (ast.FunctionDef, module-like)
        self.fresh_n = 0
        self.memo_results = {}
        self.externals = {}                   # dotted name -> handler(engine, path, args, kwargs)
        self.trace = []

    def force_unknown(self, path, obj, name, v):
        """a field that an assumed contract left undetermined (the inferred type / flag of a result): every value the
        class invariant allows is explored"""
        f = path.fields(obj)
        if name == "_Pregex__repeatable":
            ty = path.resolved(f.get("_Pregex__type"))
            if not isinstance(ty, Unknown) and ty is not None and ty.name != "Assertion":
                return True
            return self.fresh("rep", BoolS)
        names = path.partial.get(id(v), (v, self.unknown_type_candidates()))[1]
        i = path.choose([(t.name, True) for t in names], f"type of {obj.label}") if len(names) > 1 else 0
        t = f.get("_Pregex__pattern")
        if isinstance(t, SStr) and len(t.pieces) == 1 and not isinstance(t.pieces[0], str) and isinstance(t.pieces[0].info, dict):
            t.pieces[0].info.setdefault("type", names[i].name)
        return names[i]

    def unknown_is(self, path, u, value):
        """`u == value` for an undetermined inferred type: the candidates are narrowed, not enumerated"""
        cands = path.partial.get(id(u), (u, self.unknown_type_candidates()))[1]
        if value not in cands:
            return False
        if len(cands) == 1:
            path.forced[id(u)] = (u, cands[0])
            return True
        i = path.choose([("is " + value.name, True), ("is not " + value.name, True)], f"type == {value.name}")
        if i == 0:
            path.forced[id(u)] = (u, value)
            return True
        rest = [t for t in cands if t is not value]
        if len(rest) == 1:
            path.forced[id(u)] = (u, rest[0])
        else:
            path.partial[id(u)] = (u, rest)
        return False

    def force_value(self, path, u):
        """every remaining candidate of an undetermined inferred type is explored"""
        if id(u) in path.forced:
            return path.forced[id(u)][1]
        names = path.partial.get(id(u), (u, self.unknown_type_candidates()))[1]
        i = path.choose([(t.name, True) for t in names], "type of a result") if len(names) > 1 else 0
        path.forced[id(u)] = (u, names[i])
        return names[i]

    def unknown_type_candidates(self):
        T = self.index.modules["pregex.core.pre"].pyobj._Type
        return [t for t in T if t.name != "Empty"]

    def fresh_id(self):
        self.fresh_n += 1
        return self.fresh_n

    # -- fresh symbols -------------------------------------------------------------------------------
    def fresh(self, prefix, sort):
        self.fresh_n += 1
        return z3.Const(f"{prefix}!{self.fresh_n}", sort)

    # -- truthiness ----------------------------------------------------------------------------------
    def truth(self, v, path):
        if isinstance(v, bool):
            return v
        if v is None:
            return False
        if isinstance(v, (int, float)):
            return v != 0
        if isinstance(v, str):
            return len(v) > 0
        if is_sym(v):
            if z3.is_bool(v):
                return simplify_bool(v)
            if z3.is_int(v) or z3.is_real(v):
                return simplify_bool(v != 0)
            if v.sort() == StrS:
                return simplify_bool(z3.Length(v) > 0)
        if isinstance(v, SStr):
            if any(isinstance(p, str) and p for p in v.pieces):
                return True
            return simplify_bool(z3.Length(v.term()) > 0)
        if isinstance(v, (tuple, list, dict, set, frozenset)):
            return len(v) > 0
        if isinstance(v, (SymSeq, MapList)):
            return simplify_bool(v.length > 0)
        if isinstance(v, (Obj, Closure, ClassRef, FuncRef, BoundMethod, Other)):
            return True
        if isinstance(v, TermList):
            raise Limitation("truth value of an accumulator list")
        if hasattr(v, "cond"):
            return simplify_bool(v.cond)
        if hasattr(v, "none") and hasattr(v, "s"):
            return simplify_bool(z3.And(z3.Not(v.none), z3.Length(v.s) > 0))
        raise Limitation(f"truth value of {v!r}")

    # =================================================================================================
    # expressions
    # =================================================================================================
    def ev(self, node, fr, path):
        m = getattr(self, "ev_" + type(node).__name__, None)
        if m is None:
            raise Limitation(f"expression {type(node).__name__} at line {getattr(node, 'lineno', '?')}")
        return m(node, fr, path)

    def ev_Constant(self, node, fr, path):
        return node.value

    def ev_Name(self, node, fr, path):
        n = node.id
        if n in fr.env:
            return fr.env[n]
        if n == "__class__":
            return ClassRef(fr.cls.name, fr.cls, fr.cls.pyobj)
        return self.global_name(n, fr, path)

    def global_name(self, n, fr, path):
        mod = fr.module
        if n in self.spec_builtins:
            return BuiltinSpec(n)
        if n in self.spec_funcs:
            return self.spec_funcs[n]
        if mod is not None:
            if n in getattr(mod, "classes", {}):
                ci = mod.classes[n]
                return ClassRef(ci.name, ci, ci.pyobj)
            if n in getattr(mod, "functions", {}):
                return mod.functions[n]
            if n in getattr(mod, "aliases", {}):
                al = mod.aliases[n]
                if al[0] == "module":
                    return ModRef(al[1], None)
                return ModRef(al[1] + "." + al[2], None)
            if mod.pyobj is not None and hasattr(mod.pyobj, n):
                return self.lift_const(getattr(mod.pyobj, n), f"{mod.name}.{n}")
        if n in PY_BUILTINS:
            return PyBuiltin(n)
        raise Limitation(f"unknown name {n}")

    def lift_const(self, v, what):
        if isinstance(v, (int, float, str, bool, type(None), tuple, frozenset)):
            return v
        import enum
        if isinstance(v, enum.Enum):
            return v
        if isinstance(v, dict):
            return dict(v)
        if isinstance(v, (list, set)):
            return type(v)(v)
        raise Limitation(f"constant {what} of unsupported type {type(v).__name__}")

    def ev_Attribute(self, node, fr, path):
        base = self.ev(node.value, fr, path)
        return self.getattr(base, mangle(node.attr, fr.cls), fr, path)

    def getattr(self, base, attr, fr, path):
        if attr == "__class__" and not isinstance(base, (Obj, ClassRef, ModRef, SuperRef)):
            return PyTypeOf(base)
        if attr == "__name__" and isinstance(base, (PyTypeOf, ClassRef)):
            if isinstance(base, ClassRef):
                return base.name
            return SStr([Atom(z3.FreshConst(z3.StringSort(), "typename"), "opq")])     # every type has a name, a str
        if isinstance(base, Unknown):
            base = self.force_value(path, base)
        if isinstance(base, Obj):
            f = path.fields(base)
            if attr in f:
                return path.resolved(f[attr])
            ci = base.cls if isinstance(base.cls, ClassInfo) else None
            if attr == "__class__":
                return ClassRef(ci.name, ci, ci.pyobj) if ci else ClassRef(str(base.cls))
            if ci is not None:
                fi = ci.find_method(attr)
                if fi is not None:
                    return BoundMethod(base, attr, fi)
                # class-level constant
                for c in ci.mro():
                    if c.pyobj is not None and attr in vars(c.pyobj):
                        return self.lift_const(vars(c.pyobj)[attr], f"{c.name}.{attr}")
            if base.kind in self.obj_attr_handlers:
                return self.obj_attr_handlers[base.kind](self, path, base, attr)
            raise Limitation(f"attribute {attr} of {base!r}")
        if isinstance(base, ClassRef):
            ci = base.info
            if ci is not None:
                fi = ci.find_method(attr)
                if fi is not None:
                    return fi if fi.static else BoundMethod(None, attr, fi)
                for c in ci.mro():
                    if c.pyobj is not None and attr in vars(c.pyobj):
                        return self.lift_const(vars(c.pyobj)[attr], f"{c.name}.{attr}")
                if attr == "__name__":
                    return ci.name
            if base.pyobj is not None and hasattr(base.pyobj, attr):
                v = getattr(base.pyobj, attr)
                import enum
                if isinstance(v, enum.Enum):
                    return v
                return self.lift_const(v, f"{base.name}.{attr}")
            raise Limitation(f"class attribute {base.name}.{attr}")
        if isinstance(base, ModRef):
            full = base.name + "." + attr
            if base.name in self.index.modules:
                mod = self.index.modules[base.name]
                if attr in mod.classes:
                    ci = mod.classes[attr]
                    return ClassRef(ci.name, ci, ci.pyobj)
                if attr in mod.functions:
                    return mod.functions[attr]
                if hasattr(mod.pyobj, attr):
                    v = getattr(mod.pyobj, attr)
                    import enum
                    if isinstance(v, type) and issubclass(v, enum.Enum):
                        return ClassRef(attr, None, v)
                    return self.lift_const(v, full)
            return ModRef(full, None)
        if isinstance(base, SuperRef):
            fi = base.cls.find_method(attr, after=base.cls)
            if fi is None and attr == "__init__" and all(not c.bases and len(c.base_exprs) == 1 and isinstance(c.base_exprs[0], ast.Name)
                                                         and c.base_exprs[0].id == "Exception" for c in base.cls.mro()[-1:]):
                # BaseException.__init__(*args) stores its arguments and cannot fail (E13): a total no-op for the verifier
                return PyBuiltin("__exception_base_init__")
            if fi is None:
                raise Limitation(f"super().{attr}")
            return BoundMethod(base.obj, attr, fi)
        if isinstance(base, Other):
            raise RaiseExc("AttributeError", implicit=True, info=f".{attr} on an unexpected value")
        if base is None:
            raise RaiseExc("AttributeError", implicit=True, info=f".{attr} on None")
        if is_strv(base) or isinstance(base, (tuple, list, dict, set, frozenset, SymSeq, MapList, TermList)) or is_sym(base) \
                or isinstance(base, (int, float)):
            return BoundMethod(base, attr, None)
        if isinstance(base, CharV):
            if not hasattr("", attr):
                raise RaiseExc("AttributeError", implicit=True, info=f"str has no attribute {attr}")
            return BoundMethod(base, attr, None)      # a method object of a one-character string (truthy when not called)
        import enum
        if isinstance(base, enum.Enum):
            if attr in ("name", "value"):
                return getattr(base, attr)
        if hasattr(base, "m_" + attr):
            return BoundMethod(base, attr, None)
        raise Limitation(f"attribute {attr} of {base!r}")

    obj_attr_handlers = {}

    # -- operators -----------------------------------------------------------------------------------
    def ev_BoolOp(self, node, fr, path):
        is_and = isinstance(node.op, ast.And)
        v = None
        if fr.module is not None and fr.module is getattr(self, "spec_module", None):
            # specification context: and/or are logical connectives (no forking); python's short-circuit is kept for
            # operands that are decided (kind guards such as INT(n) and n < 0)
            acc = None
            for i, e in enumerate(node.values):
                v = self.ev(e, fr, path)
                t = self.truth(v, path)
                if isinstance(t, bool):
                    if is_and and not t:
                        return False if acc is None or True else acc
                    if not is_and and t:
                        return True
                    continue
                acc = t if acc is None else (z3.And(acc, t) if is_and else z3.Or(acc, t))
            if acc is None:
                return is_and
            return simplify_bool(acc)
        for i, e in enumerate(node.values):
            v = self.ev(e, fr, path)
            if i == len(node.values) - 1:
                return v
            t = path.branch(v, f"boolop@{node.lineno}")
            if is_and and not t:
                return v
            if not is_and and t:
                return v
        return v

    def ev_UnaryOp(self, node, fr, path):
        v = self.ev(node.operand, fr, path)
        if isinstance(node.op, ast.Not):
            t = self.truth(v, path)
            return (not t) if isinstance(t, bool) else simplify_bool(z3.Not(t))
        if isinstance(node.op, ast.USub):
            self.need_num(v)
            a = to_arith(v)
            return -a
        if isinstance(node.op, ast.Invert):
            if isinstance(v, Obj):
                return self.call_method(v, "__invert__", [], {}, fr, path)
        raise Limitation(f"unary {type(node.op).__name__}")

    def need_num(self, *vs):
        for v in vs:
            if not is_numv(v):
                raise RaiseExc("TypeError", implicit=True, info=f"arithmetic/comparison on {kind_of(v)}")

    def ev_BinOp(self, node, fr, path):
        a = self.ev(node.left, fr, path)
        b = self.ev(node.right, fr, path)
        return self.binop(node.op, a, b, fr, path, node)

    def binop(self, op, a, b, fr, path, node=None):
        if isinstance(op, ast.Add):
            if isinstance(a, (CharV, RunStr)) and isinstance(b, (CharV, RunStr)):
                x, y = as_run(a), as_run(b)
                ones = z3.And(zterm(x.n) == 1, zterm(y.n) == 1)
                if not path.implied(ones) and path.branch(z3.Not(ones), "run-concat"):
                    raise Limitation("concatenation of runs longer than one character")
                return RunStr(x.lo, y.lo, 2)        # two one-character strings: the two-character string lo + hi
            if is_strv(a) and is_strv(b):
                return mkstr(a, b)
            if is_numv(a) and is_numv(b):
                return to_arith(a) + to_arith(b)
            if isinstance(a, (list, tuple)) and type(a) == type(b):
                return a + b
            if isinstance(a, MapList) and isinstance(b, list):
                return a.concat(self, path, b)
            if isinstance(a, Obj) and a.kind == "pregex":
                return self.call_method(a, "__add__", [b], {}, fr, path)
            if isinstance(b, Obj) and b.kind == "pregex":
                return self.call_method(b, "__radd__", [a], {}, fr, path)
            raise RaiseExc("TypeError", implicit=True, info=f"{kind_of(a)} + {kind_of(b)}")
        if isinstance(op, ast.Sub):
            if is_numv(a) and is_numv(b):
                return to_arith(a) - to_arith(b)
            if isinstance(a, Obj) and a.kind == "pregex":
                return self.call_method(a, "__sub__", [b], {}, fr, path)
            raise RaiseExc("TypeError", implicit=True, info=f"{kind_of(a)} - {kind_of(b)}")
        if isinstance(op, ast.Mult):
            if is_numv(a) and is_numv(b):
                x, y = to_arith(a), to_arith(b)
                if is_sym(x) and is_sym(y):
                    raise Limitation("non-linear arithmetic")
                return x * y
            if isinstance(a, str) and is_intv(b) and not is_sym(b):
                return a * b
            if isinstance(a, str) and is_intv(b):
                # filler * (len(end) - len(start)) style: only concrete supported
                raise Limitation("string repetition by a symbolic count")
            if isinstance(a, Obj) and a.kind == "pregex":
                return self.call_method(a, "__mul__", [b], {}, fr, path)
            if isinstance(b, Obj) and b.kind == "pregex":
                return self.call_method(b, "__rmul__", [a], {}, fr, path)
            raise RaiseExc("TypeError", implicit=True, info=f"{kind_of(a)} * {kind_of(b)}")
        if isinstance(op, ast.BitOr):
            if isinstance(a, bool) and isinstance(b, bool):
                return a or b
            if isinstance(a, int) and isinstance(b, int):
                return a | b
            if isinstance(a, dict) and isinstance(b, dict):
                return {**a, **b}
            import enum
            if isinstance(a, enum.Enum) and isinstance(b, enum.Enum):
                return a | b
            if isinstance(a, Obj) and a.kind == "pregex":
                return self.call_method(a, "__or__", [b], {}, fr, path)
            if isinstance(b, Obj) and b.kind == "pregex":
                return self.call_method(b, "__ror__", [a], {}, fr, path)
        raise Limitation(f"binary operator {type(op).__name__} on {kind_of(a)}, {kind_of(b)}")

    def ev_Compare(self, node, fr, path):
        left = self.ev(node.left, fr, path)
        result = None
        for op, rn in zip(node.ops, node.comparators):
            right = self.ev(rn, fr, path)
            r = self.compare(op, left, right, fr, path)
            if result is None:
                result = r
            else:
                result = self.and_(result, r)
            if result is False:
                return False
            left = right
        return result

    def and_(self, a, b):
        if a is True:
            return b
        if b is True:
            return a
        if a is False or b is False:
            return False
        return simplify_bool(z3.And(zterm(a), zterm(b)))

    def compare(self, op, a, b, fr, path):
        if isinstance(op, (ast.Is, ast.IsNot)):
            r = self.identical(a, b)
            return r if isinstance(op, ast.Is) else self.not_(r)
        if isinstance(op, (ast.Eq, ast.NotEq)):
            r = self.equal(a, b, path)
            return r if isinstance(op, ast.Eq) else self.not_(r)
        if isinstance(op, (ast.Lt, ast.LtE, ast.Gt, ast.GtE)):
            if is_numv(a) and is_numv(b):
                x, y = to_arith(a), to_arith(b)
                r = {ast.Lt: lambda: x < y, ast.LtE: lambda: x <= y, ast.Gt: lambda: x > y,
                     ast.GtE: lambda: x >= y}[type(op)]()
                return simplify_bool(r) if is_sym(r) else r
            if isinstance(a, CharV) and isinstance(b, CharV):
                x, y = a.code, b.code
                r = {ast.Lt: lambda: x < y, ast.LtE: lambda: x <= y, ast.Gt: lambda: x > y,
                     ast.GtE: lambda: x >= y}[type(op)]()
                return simplify_bool(r) if is_sym(r) else r
            if isinstance(a, str) and isinstance(b, str):
                return {ast.Lt: a < b, ast.LtE: a <= b, ast.Gt: a > b, ast.GtE: a >= b}[type(op)]
            raise RaiseExc("TypeError", implicit=True, info=f"ordering comparison of {kind_of(a)} and {kind_of(b)}")
        if isinstance(op, (ast.In, ast.NotIn)):
            r = self.contains(b, a, path)
            return r if isinstance(op, ast.In) else self.not_(r)
        raise Limitation(f"comparison {type(op).__name__}")

    def not_(self, r):
        if isinstance(r, bool):
            return not r
        return simplify_bool(z3.Not(r))

    def identical(self, a, b):
        if a is b:
            return True
        if a is None or b is None:
            o = b if a is None else a
            if hasattr(o, "cond"):
                return simplify_bool(z3.Not(o.cond))
            if hasattr(o, "none") and hasattr(o, "s"):
                return simplify_bool(o.none)
            return a is None and b is None
        if isinstance(a, Obj) and isinstance(b, Obj):
            return a.oid == b.oid
        if isinstance(a, bool) and isinstance(b, bool):
            return a == b
        if type(a) != type(b):
            return False
        raise Limitation(f"identity of {a!r} and {b!r}")

    def equal(self, a, b, path):
        import enum
        if a is b:
            return True
        a, b = path.resolved(a), path.resolved(b)
        if isinstance(a, Unknown) or isinstance(b, Unknown):
            u, c = (a, b) if isinstance(a, Unknown) else (b, a)
            if isinstance(c, enum.Enum):
                return self.unknown_is(path, u, c)
            if isinstance(c, Unknown):
                return self.equal(self.force_value(path, u), self.force_value(path, c), path)
            return self.equal(self.force_value(path, u), c, path)
        for x, y in ((a, b), (b, a)):
            if hasattr(x, "none") and hasattr(x, "s"):
                if y is None:
                    return simplify_bool(x.none)
                if is_strv(y):
                    return simplify_bool(z3.And(z3.Not(x.none), x.s == str_term(y)))
                if hasattr(y, "none") and hasattr(y, "s"):
                    return simplify_bool(z3.And(x.none == y.none, z3.Or(x.none, x.s == y.s)))
        if a is None or b is None:
            if a is None and b is None:
                return True
            # Pregex defines no __eq__; None == anything else is False
            return False
        if is_numv(a) and is_numv(b):
            x, y = to_arith(a), to_arith(b)
            r = (x == y)
            return simplify_bool(r) if is_sym(r) else bool(r)
        if isinstance(a, CharV) and isinstance(b, CharV):
            r = a.code == b.code
            return simplify_bool(r) if is_sym(r) else bool(r)
        if isinstance(a, CharV) and isinstance(b, str) or isinstance(b, CharV) and isinstance(a, str):
            c, s = (a, b) if isinstance(a, CharV) else (b, a)
            if len(s) != 1:
                return False
            r = c.code == ord(s)
            return simplify_bool(r) if is_sym(r) else bool(r)
        if is_strv(a) and is_strv(b):
            if isinstance(a, str) and isinstance(b, str):
                return a == b
            if str_key(a) == str_key(b):
                return True
            return simplify_bool(str_term(a) == str_term(b))
        if isinstance(a, enum.Enum) or isinstance(b, enum.Enum):
            return a == b
        if isinstance(a, Obj) and isinstance(b, Obj):
            return a.oid == b.oid
        if (isinstance(a, tuple) and isinstance(b, tuple)) or (isinstance(a, list) and isinstance(b, list)):
            if len(a) != len(b):
                return False
            r = True
            for x, y in zip(a, b):
                r = self.and_(r, self.equal(x, y, path))
                if r is False:
                    return False
            return r
        if isinstance(a, TermList) and isinstance(b, TermList):
            return simplify_bool(a.term == b.term)
        if is_sym(a) and is_sym(b) and a.sort() == b.sort():
            return simplify_bool(a == b)
        if isinstance(a, Other) and isinstance(b, Other):
            return a is b or self.fresh("othereq", BoolS)
        if kind_of(a) != kind_of(b):
            if isinstance(a, Other) or isinstance(b, Other):
                return False
            if (is_strv(a) and is_numv(b)) or (is_numv(a) and is_strv(b)) or isinstance(a, Obj) or isinstance(b, Obj):
                return False
        raise Limitation(f"equality of {a!r} and {b!r}")

    def contains(self, container, item, path):
        if isinstance(container, (tuple, list, set, frozenset)):
            r = False
            for x in container:
                e = self.equal(x, item, path)
                if e is True:
                    return True
                if e is not False:
                    r = e if r is False else simplify_bool(z3.Or(r, e))
            return r
        if isinstance(container, dict):
            return self.contains(tuple(container.keys()), item, path)
        if isinstance(container, str) and isinstance(item, str):
            return item in container
        if is_strv(container) and is_strv(item):
            return simplify_bool(z3.Contains(str_term(container), str_term(item)))
        if isinstance(container, SymSeq) and container.label.startswith("strlist"):
            k = self.fresh("k", IntS)
            # membership in a symbolic list of strings: exists k
            return z3.Exists([k], z3.And(k >= 0, k < container.length, self.equal(container.getter(k), item, path)))
        raise Limitation(f"membership in {container!r}")

    def ev_IfExp(self, node, fr, path):
        c = self.ev(node.test, fr, path)
        if path.branch(c, f"ifexp@{node.lineno}"):
            return self.ev(node.body, fr, path)
        return self.ev(node.orelse, fr, path)

    def ev_JoinedStr(self, node, fr, path):
        parts = []
        for v in node.values:
            if isinstance(v, ast.Constant):
                parts.append(v.value)
            elif isinstance(v, ast.FormattedValue):
                if v.format_spec is not None:
                    raise Limitation("format spec")
                x = self.ev(v.value, fr, path)
                parts.append(self.to_str(x, fr, path, conv=v.conversion))
            else:
                raise Limitation("f-string part")
        return mkstr(*parts)

    def to_str(self, x, fr, path, conv=-1):
        if conv == 114:
            raise Limitation("!r conversion")
        if isinstance(x, str) or isinstance(x, SStr):
            return x
        if isinstance(x, bool):
            return str(x)
        if isinstance(x, int):
            return str(x)
        if is_sym(x) and z3.is_int(x):
            return SStr([Atom(DEC(x), "dec", x)])
        if is_sym(x) and z3.is_bool(x):
            if path.branch(x, "str(bool)"):
                return "True"
            return "False"
        if isinstance(x, Obj):
            return self.call_method(x, "__str__", [], {}, fr, path)
        if isinstance(x, CharV):
            return x.as_str()
        if x is None:
            return "None"
        if isinstance(x, float):
            return str(x)
        if isinstance(x, Other) or (is_sym(x) and z3.is_real(x)):
            return SStr([Atom(self.fresh("strof", StrS), "opq")])
        raise Limitation(f"str() of {x!r}")

    def ev_Tuple(self, node, fr, path):
        out = []
        for e in node.elts:
            if isinstance(e, ast.Starred):
                v = self.ev(e.value, fr, path)
                if not isinstance(v, (tuple, list)):
                    raise Limitation("starred symbolic sequence in a tuple display")
                out.extend(v)
            else:
                out.append(self.ev(e, fr, path))
        return tuple(out)

    def ev_List(self, node, fr, path):
        return list(self.ev_Tuple(node, fr, path))

    def ev_Set(self, node, fr, path):
        return SetV([self.ev(e, fr, path) for e in node.elts])

    def ev_Dict(self, node, fr, path):
        d = {}
        for k, v in zip(node.keys, node.values):
            if k is None:
                d.update(self.ev(v, fr, path))
            else:
                d[self.ev(k, fr, path)] = self.ev(v, fr, path)
        return d

    def ev_Lambda(self, node, fr, path):
        return Closure(node, dict(fr.env), fr.cls, fr.module)

    def ev_Subscript(self, node, fr, path):
        base = self.ev(node.value, fr, path)
        if isinstance(node.slice, ast.Slice):
            lo = self.ev(node.slice.lower, fr, path) if node.slice.lower is not None else None
            hi = self.ev(node.slice.upper, fr, path) if node.slice.upper is not None else None
            if node.slice.step is not None:
                raise Limitation("slice step")
            return self.slice(base, lo, hi, path)
        idx = self.ev(node.slice, fr, path)
        if isinstance(base, (SymSeq, MapList)) and fr.module is not None and fr.module is getattr(self, "spec_module", None):
            return base.getter(zterm(to_arith(idx)))      # specification context: indexing is total
        if isinstance(base, SStr) and fr.module is not None and fr.module is getattr(self, "spec_module", None):
            t = base.term()
            i = zterm(to_arith(idx))
            return SStr([Atom(z3.SubString(t, z3.simplify(z3.If(i < 0, i + z3.Length(t), i)), 1), "opq", {"key": f"at{self.fresh_id()}"})])
        return self.index_(base, idx, path)

    def index_(self, base, idx, path):
        if isinstance(base, dict):
            import enum
            if is_sym(idx):
                keys = [k for k in base if isinstance(k, int) and not isinstance(k, bool)]
                if len(keys) != len(base):
                    raise Limitation("dict lookup with a symbolic key")
                opts = [(str(k), zterm(idx) == k) for k in keys] + [("missing", z3.And(*[zterm(idx) != k for k in keys]))]
                i = path.choose(opts, "dict key")
                if i == len(keys):
                    raise RaiseExc("KeyError", implicit=True, info="key not in dict")
                return base[keys[i]]
            if idx not in base:
                raise RaiseExc("KeyError", implicit=True, info=f"key {idx!r}")
            return base[idx]
        if isinstance(base, (tuple, list, str)):
            if is_sym(idx):
                raise Limitation("symbolic index into a concrete sequence")
            if not isinstance(idx, int):
                raise RaiseExc("TypeError", implicit=True, info="non-integer index")
            if idx < -len(base) or idx >= len(base):
                raise RaiseExc("IndexError", implicit=True, info=f"index {idx} of a sequence of length {len(base)}")
            return base[idx]
        if isinstance(base, (SymSeq, MapList)):
            i = zterm(to_arith(idx))
            inb = z3.And(i >= 0, i < base.length)
            if not path.implied(inb):
                # python: negative indices wrap; out of range raises
                if path.sat(z3.Not(z3.And(i >= -base.length, i < base.length))):
                    if path.branch(z3.Not(z3.And(i >= -base.length, i < base.length)), "index-range"):
                        raise RaiseExc("IndexError", implicit=True, info="index out of range")
                if path.branch(i < 0, "index-neg"):
                    i = i + base.length
            return base.getter(z3.simplify(i))
        if isinstance(base, CharPair):
            if is_sym(idx):
                raise Limitation("symbolic index into a pair")
            return base.items[idx]
        if isinstance(base, (RunStr, CharV)) and isinstance(idx, int):
            r = as_run(base)
            if idx in (0, -1):
                return r.lo if idx == 0 else r.hi
            if idx in (1, -2):
                two = zterm(r.n) == 2
                if not path.implied(two):
                    if path.branch(z3.Not(two), "run-index"):
                        raise RaiseExc("IndexError", implicit=True, info="string index out of range")
                return r.hi if idx == 1 else r.lo
            raise RaiseExc("IndexError", implicit=True, info="string index out of range")
        if isinstance(base, SStr):
            # s[i]: the one-character string at position i (IndexError outside 0 <= i < len, after python's wrap-around)
            t = base.term()
            n = z3.Length(t)
            i = zterm(to_arith(idx))
            ii = z3.simplify(z3.If(i < 0, i + n, i))
            ok = z3.And(ii >= 0, ii < n)
            if not path.implied(ok):
                if path.branch(z3.Not(ok), "str-index"):
                    raise RaiseExc("IndexError", implicit=True, info="string index out of range")
            return SStr([Atom(z3.SubString(t, ii, 1), "opq", {"key": f"at{self.fresh_id()}"})])
        raise RaiseExc("TypeError", implicit=True, info=f"subscript of {kind_of(base)}")

    def slice(self, base, lo, hi, path):
        if isinstance(base, (tuple, list, str)) and not is_sym(lo) and not is_sym(hi):
            return base[lo:hi]
        if isinstance(base, SStr) and (lo is None or isinstance(lo, int)) and (hi is None or isinstance(hi, int)):
            ps = list(base.pieces)
            l0 = lo or 0
            h0 = hi
            if l0 >= 0 and (h0 is None or h0 < 0) and ps and isinstance(ps[0], str) and len(ps[0]) >= l0 \
                    and (h0 is None or (isinstance(ps[-1], str) and len(ps[-1]) >= -h0)) and (len(ps) > 1 or h0 is None):
                ps[0] = ps[0][l0:]
                if h0 is not None:
                    ps[-1] = ps[-1][:h0]
                return mkstr(*ps)
        if is_strv(base):
            t = str_term(base)
            n = z3.Length(t)
            a = self.norm_index(lo, n, 0)
            b = self.norm_index(hi, n, n)
            b2 = z3.If(b < a, a, b)
            return SStr([Atom(PYSLICE(t, z3.simplify(a), z3.simplify(b2)), "slice", (base, a, b2))])
        if isinstance(base, (SymSeq, MapList)) and (hi is None) and isinstance(lo, int) and lo >= 0:
            g = base.getter
            return SymSeq(z3.If(base.length >= lo, base.length - lo, 0), lambda i: g(i + lo), base.label + f"[{lo}:]")
        raise Limitation(f"slice of {base!r}")

    def norm_index(self, i, n, default):
        if i is None:
            return zterm(default) if not is_sym(default) else default
        i = zterm(to_arith(i))
        return z3.If(i < 0, z3.If(i + n < 0, 0, i + n), z3.If(i > n, n, i))

    # -- comprehensions ------------------------------------------------------------------------------
    def ev_ListComp(self, node, fr, path):
        return self.comprehension(node, fr, path, "list")

    def ev_GeneratorExp(self, node, fr, path):
        return self.comprehension(node, fr, path, "gen")

    def ev_SetComp(self, node, fr, path):
        return SetV(self.comprehension(node, fr, path, "list"))

    def ev_DictComp(self, node, fr, path):
        if len(node.generators) != 1:
            raise Limitation("nested comprehension")
        g = node.generators[0]
        it = self.ev(g.iter, fr, path)
        if isinstance(it, SymSeq):
            return self.filtered(node, g, it, "dict")
        items = self.iter_concrete(it, path)
        out = {}
        for x in items:
            env2 = Frame(fr.func, dict(fr.env), fr.cls, fr.module, fr.self_obj)
            self.assign(g.target, x, env2, path)
            if all(path.branch(self.ev(c, env2, path), "dictcomp-if") for c in g.ifs):
                out[self.ev(node.key, env2, path)] = self.ev(node.value, env2, path)
        return out

    def comprehension(self, node, fr, path, kind):
        if len(node.generators) != 1:
            # two generators: only concrete iteration supported
            return self.comp_nested(node, fr, path, 0, fr)
        g = node.generators[0]
        it = self.ev(g.iter, fr, path)
        if isinstance(it, AbsSet):
            r = self.comp_abs(node, g, it, fr, path)
            if r is not None:
                return r
            it = it.materialise(self, path)
        if isinstance(it, (SymSeq, MapList)):
            if g.ifs:
                return self.filtered(node, g, it, "seq")
            env0 = dict(fr.env)

            def getter(i, it=it, env0=env0):
                f2 = Frame(fr.func, dict(env0), fr.cls, fr.module, fr.self_obj)
                self.assign(g.target, it.getter(i), f2, path)
                return self.ev(node.elt, f2, path)
            if isinstance(it, MapList):
                return MapList(it.length, getter, elem_kind_of(getter(self.fresh("probe", IntS))), "comp")
            return SymSeq(it.length, getter, "comp")
        items = self.iter_concrete(it, path)
        out = []
        for x in items:
            f2 = Frame(fr.func, dict(fr.env), fr.cls, fr.module, fr.self_obj)
            self.assign(g.target, x, f2, path)
            if all(path.branch(self.ev(c, f2, path), "comp-if") for c in g.ifs):
                out.append(self.ev(node.elt, f2, path))
        return out

    def comp_abs(self, node, g, it, fr, path):
        """[f(e) for e in S] over an abstract set: when f keeps what every item denotes (split a range string, write a
        character c as the range c-c, copy) the result denotes the same code points"""
        from .values import as_pair, range_string
        if g.ifs or it.kind not in ("char", "range", "pair"):
            return None
        if it.kind == "char":
            k = self.fresh("elt", IntS)
            e, lo, hi = CharV(k), k, k
        else:
            lo, hi = self.fresh("elt_lo", IntS), self.fresh("elt_hi", IntS)
            path.assume(z3.And(0 <= lo, lo <= hi, hi <= 0x10FFFF))
            e = range_string(CharV(lo), CharV(hi)) if it.kind == "range" else CharPair(CharV(lo), CharV(hi))
        f2 = Frame(fr.func, dict(fr.env), fr.cls, fr.module, fr.self_obj)
        self.assign(g.target, e, f2, path)
        r = self.ev(node.elt, f2, path)
        if isinstance(r, CharV) and it.kind == "char" and path.implied(zterm(r.code) == k):
            return AbsSet("char", it.mem)
        try:
            a, b = as_pair(r)
        except Exception:
            return None
        if path.implied(z3.And(zterm(a) == lo, zterm(b) == hi)):
            return AbsSet("pair" if isinstance(r, (CharPair, tuple, list)) else "range", it.mem)
        return None

    def filtered(self, node, g, it, kind):
        """a filtered comprehension over an oracle sequence is an uninterpreted function of that sequence, named by
        the (alpha-normalised) element and filter expressions: equal source gives equal terms"""
        base = getattr(it, "vterm", None)
        if base is None:
            raise Limitation("filtered comprehension over a symbolic sequence")
        import hashlib
        names = [n.id for n in ast.walk(g.target) if isinstance(n, ast.Name)]

        def dump(e):
            import copy
            e = copy.deepcopy(e)
            for n in ast.walk(e):
                if isinstance(n, ast.Name):
                    if n.id in names:
                        n.id = "_x%d" % names.index(n.id)
                    else:
                        raise Limitation("filtered comprehension with free variables")
            return ast.dump(e)
        elts = [node.key, node.value] if kind == "dict" else [node.elt]
        key = kind + "|" + "|".join(dump(e) for e in elts) + "||" + "|".join(dump(c) for c in g.ifs)
        h = hashlib.sha256(key.encode()).hexdigest()[:12]
        fs = FiltSeq(z3.Function("filt_" + h, V, V)(base), key)
        return fs

    def comp_nested(self, node, fr, path, gi, f):
        g = node.generators[gi]
        items = self.iter_concrete(self.ev(g.iter, f, path), path)
        out = []
        for x in items:
            f2 = Frame(fr.func, dict(f.env), fr.cls, fr.module, fr.self_obj)
            self.assign(g.target, x, f2, path)
            if all(path.branch(self.ev(c, f2, path), "comp-if") for c in g.ifs):
                if gi + 1 < len(node.generators):
                    out.extend(self.comp_nested(node, fr, path, gi + 1, f2))
                else:
                    out.append(self.ev(node.elt, f2, path))
        return out

    def iter_concrete(self, it, path):
        if isinstance(it, (tuple, list)):
            return list(it)
        if isinstance(it, SetV):
            return list(it.items)   # NOTE: order of a set is arbitrary; callers that depend on it are handled by vc
        if isinstance(it, dict):
            return list(it.keys())
        if isinstance(it, str):
            return list(it)
        if isinstance(it, range):
            return list(it)
        raise Limitation(f"iteration over {it!r}")

    # =================================================================================================
    # calls
    # =================================================================================================
    def ev_Call(self, node, fr, path):
        # super() special form
        if isinstance(node.func, ast.Name) and node.func.id == "super" and not node.args:
            return SuperRef(fr.cls, fr.self_obj)
        if isinstance(node.func, ast.Attribute) and isinstance(node.func.value, ast.Name) and node.func.value.id in fr.env \
                and isinstance(fr.env[node.func.value.id], MapList) and node.func.attr in ("pop", "append", "add"):
            lst = fr.env[node.func.value.id]
            a = [self.ev(x, fr, path) for x in node.args]
            if node.func.attr == "pop":
                val, new = lst.pop(self, path, *a)
                fr.env[node.func.value.id] = new
                return val
            fr.env[node.func.value.id] = lst.append(self, path, a[0])
            return None
        if isinstance(node.func, ast.Attribute) and isinstance(node.func.value, ast.Name) and node.func.value.id in fr.env \
                and isinstance(fr.env[node.func.value.id], SymSet) and isinstance(fr.env[node.func.value.id].seq, MapList) \
                and node.func.attr == "add":
            st = fr.env[node.func.value.id]
            a = [self.ev(x, fr, path) for x in node.args]
            fr.env[node.func.value.id] = SymSet(st.seq.append(self, path, a[0]))      # a set as a list in arbitrary order (E7)
            return None
        f = self.ev(node.func, fr, path)
        args, kwargs = [], {}
        for a in node.args:
            if isinstance(a, ast.Starred):
                v = self.ev(a.value, fr, path)
                if isinstance(v, (tuple, list)):
                    args.extend(v)
                elif isinstance(v, SymSeq):
                    args.append(StarSeq(v))
                elif isinstance(v, SetV):
                    args.extend(v.items)
                else:
                    raise Limitation(f"*{v!r}")
            else:
                args.append(self.ev(a, fr, path))
        for kw in node.keywords:
            if kw.arg is None:
                raise Limitation("**kwargs")
            kwargs[kw.arg] = self.ev(kw.value, fr, path)
        return self.call(f, args, kwargs, fr, path, node)

    def call(self, f, args, kwargs, fr, path, node=None):
        if isinstance(f, PyBuiltin) and f.name == "__exception_base_init__":
            if kwargs:
                raise RaiseExc("TypeError", implicit=True, info="BaseException.__init__() takes no keyword arguments")
            return None
        if isinstance(f, PyBuiltin):
            return self.call_builtin(f.name, args, kwargs, fr, path)
        if isinstance(f, BuiltinSpec):
            return self.spec_builtins[f.name](self, path, *args, **kwargs)
        if isinstance(f, Closure):
            return self.call_closure(f, args, kwargs, path)
        if isinstance(f, SpecFunc):
            return self.call_funcdef(f.node, args, kwargs, None, f.module, None, path, static=True, qual="spec." + f.name)
        if isinstance(f, BoundMethod):
            if f.func is None:
                return self.call_value_method(f.recv, f.name, args, kwargs, fr, path)
            if f.recv is None or f.func.static:
                # unbound method accessed through the class (first arg is self), or a staticmethod reached via an instance
                return self.call_function(f.func, args, kwargs, fr, path)
            return self.call_function(f.func, [f.recv] + list(args), kwargs, fr, path)
        if isinstance(f, FuncInfo):
            return self.call_function(f, args, kwargs, fr, path)
        if isinstance(f, NestedFunc):
            if f.fi is not None and self.contracts.get(f.fi.qualname) is not None:
                return self.call_function(f.fi, args, kwargs, fr, path)       # a nested function under contract
            raise Limitation(f"call of the nested function {f.node.name}, which has no contract")
        if isinstance(f, ClassRef):
            return self.construct(f, args, kwargs, fr, path)
        if isinstance(f, ModRef):
            h = self.externals.get(f.name)
            if h is None:
                raise Limitation(f"call of external {f.name}")
            return h(self, path, args, kwargs)
        if isinstance(f, Other):
            raise RaiseExc("TypeError", implicit=True, info="call of an unexpected value")
        raise Limitation(f"call of {f!r}")

    def call_closure(self, c, args, kwargs, path):
        node = c.node
        env = dict(c.env)
        params = [a.arg for a in node.args.args]
        if len(args) > len(params):
            raise Limitation("lambda arity")
        for p, a in zip(params, args):
            env[p] = a
        for k, v in kwargs.items():
            env[k] = v
        f2 = Frame(None, env, c.cls, c.module, env.get("self"))
        if isinstance(node, ast.Lambda):
            return self.ev(node.body, f2, path)
        return self.run_body(node.body, f2, path)

    def bind_args(self, fi, args, kwargs, fr, path):
        node = fi.node
        params = [a.arg for a in node.args.args]
        env = {}
        pos = list(args)
        if any(isinstance(a, StarSeq) for a in pos):
            # f(x, *symseq): only allowed when the callee collects them in *vararg
            idx = next(i for i, a in enumerate(pos) if isinstance(a, StarSeq))
            if node.args.vararg is None or idx < len(params) - (0):
                if idx < len(params):
                    raise Limitation("symbolic *args spread over named parameters")
            fixed = pos[:idx]
            rest = pos[idx:]
            if len(rest) != 1:
                raise Limitation("mixed symbolic *args")
            for p, a in zip(params, fixed):
                env[p] = a
            pre = fixed[len(params):]
            seq = rest[0].seq
            if pre:
                g = seq.getter
                k = len(pre)
                pre_t = list(pre)
                seq = SymSeq(seq.length + k, lambda i, g=g, k=k, pre_t=pre_t: ite_chain(i, pre_t, lambda j: g(j - k)), "args")
            env[node.args.vararg.arg] = seq
            nfixed = len(fixed)
        else:
            for p, a in zip(params, pos):
                env[p] = a
            nfixed = len(pos)
            if len(pos) > len(params):
                if node.args.vararg is None:
                    raise RaiseExc("TypeError", implicit=True, info="too many positional arguments")
                env[node.args.vararg.arg] = tuple(pos[len(params):])
            elif node.args.vararg is not None:
                env[node.args.vararg.arg] = ()
        for k, v in kwargs.items():
            if k not in params:
                raise RaiseExc("TypeError", implicit=True, info=f"unexpected keyword {k}")
            env[k] = v
        # defaults
        nd = len(node.args.defaults)
        for i, p in enumerate(params):
            if p not in env:
                di = i - (len(params) - nd)
                if di < 0:
                    raise RaiseExc("TypeError", implicit=True, info=f"missing argument {p}")
                dfr = Frame(fi, {}, fi.cls, fi.module)
                env[p] = self.ev(node.args.defaults[di], dfr, path)
        return env

    def call_function(self, fi, args, kwargs, fr, path):
        """call of a function of the package: by contract, unless marked inline"""
        q = fi.qualname
        c = self.contracts.get(q)
        env = self.bind_args(fi, args, kwargs, fr, path)
        if c is None or c.get("inline"):
            if c is None and not self.allow_inline_uncontracted(fi):
                raise Limitation(f"call of {q}, which has no contract")
            return self.call_funcdef(fi.node, None, None, fi.cls, fi.module, fi, path, env=env, qual=q)
        if (c.get("concrete_native") or (q.startswith("pregex.core.pre.Pregex.") and "self" in env and not c.get("assumed")
                                         and isinstance(env.get("self"), Obj) and _public_method(q.rsplit(".", 1)[-1])
                                         and not c.get("no_concrete"))) \
                and all(_is_concrete(v, path) for v in env.values()):
            # a public operation applied to constants: the real code is run on them (concrete execution)
            return self.concrete_call(fi, env, fr, path)
        return self.apply_contract(fi, c, env, fr, path)

    def concrete_call(self, fi, env, fr, path):
        raise Limitation("concrete call")

    def allow_inline_uncontracted(self, fi):
        return False

    def call_funcdef(self, node, args, kwargs, cls, module, fi, path, static=False, env=None, qual="?"):
        if env is None:
            tmp = FuncInfo.__new__(FuncInfo)
            tmp.node, tmp.cls, tmp.module, tmp.qualname = node, cls, module, qual
            env = self.bind_args(tmp, args, kwargs or {}, None, path)
        fr = Frame(fi, env, cls, module, env.get("self"))
        fr.args0 = dict(env)
        path.depth += 1
        if path.depth > 40:
            raise Limitation("inline depth")
        try:
            if fi is not None and fi.is_generator:
                saved = path.yields
                path.yields = []
                try:
                    self.run_body(node.body, fr, path)
                except ReturnExc:
                    pass
                out = path.yields
                path.yields = saved
                return self.finish_generator(out)
            try:
                self.run_body(node.body, fr, path)
            except ReturnExc as r:
                return r.value
            return None
        finally:
            path.depth -= 1

    def finish_generator(self, ys):
        return ys if not isinstance(ys, (SymSeq, TermList)) else ys

    # -- contract application at a call site ---------------------------------------------------------
    def note_kind_gaps(self, q, c, env, path):
        """a callee's contract is verified for the argument kinds its `params` list; an argument of another kind at a
        call site is used beyond what was verified - recorded and reported as an assumption of the caller"""
        if c.get("assumed") or not hasattr(self, "kind_gaps"):
            return
        for name, kinds in (c.get("params") or {}).items():
            if name not in env:
                continue
            tags = kinds if isinstance(kinds, list) else self.kind_tags.get(kinds)
            if tags is None:
                continue
            tag = self.value_tag(env[name], path)
            if tag is None:
                continue
            if not any(str(t).startswith("classobj") for t in tags):
                # a class-layer instance is a Pregex of its inferred type for a callee that does not distinguish them
                strip = lambda t: {"Any": "Class", "Word": "Class", "ButWord": "Class"}.get(t.split(":", 1)[1], t.split(":", 1)[1]) \
                    if t.startswith("classobj:") else t
                tag = tuple(strip(t) for t in tag) if isinstance(tag, tuple) else strip(tag)
            if isinstance(tag, tuple):            # *args: a tuple of operand tags
                import itertools
                alts = [("str0", "str1", "str2") if t == "str" else (t.split(":")[0],) for t in tag]
                if any("|".join(combo) not in tags for combo in itertools.product(*alts)):
                    self.kind_gaps.add((q, name, f"{len(tag)} operands"))
                continue
            if tag == "int" and isinstance(env[name], int) and f"const:{env[name]}" in tags:
                continue
            if tag == "bool" and isinstance(env[name], bool) and str(env[name]) in tags:
                continue
            ok = tag in tags or (tag in ("str0", "str1", "str2") and "str" in tags) or \
                (tag == "str" and all(t in tags for t in ("str0", "str1", "str2"))) or \
                (tag.startswith("Group") and ("Group" in tags or tag.split(":")[0] in tags)) or \
                (tag == "bool" and "bool" not in tags and "dyn" == kinds) or (tag + "+compiled" in tags)
            if not ok:
                self.kind_gaps.add((q, name, tag))

    def value_tag(self, v, path):
        if v is None:
            return "none"
        if isinstance(v, bool) or is_boolv(v):
            return "bool"
        if is_intv(v):
            return "int"
        if is_realv(v):
            return "float"
        if isinstance(v, str):
            return "str0" if len(v) == 0 else "str1" if len(v) == 1 else "str2"
        if is_strv(v):
            return "str"
        if isinstance(v, Other):
            return "other"
        if isinstance(v, tuple):
            ts = [self.value_tag(x, path) for x in v]
            return tuple(ts) if all(isinstance(t, str) for t in ts) else None
        if isinstance(v, Obj) and v.kind == "pregex":
            f = path.fields(v)
            if "_Pregex__type" not in f:
                return "new"
            ty = path.resolved(f["_Pregex__type"])
            if isinstance(ty, Unknown) or ty is None:
                return None
            shape = (getattr(v, "info", None) or {}).get("shape")
            if "_Class__is_negated" in f:
                special = {"Any": "Any", "AnyWordChar": "Word", "AnyButWordChar": "ButWord"}.get(getattr(v.cls, "name", None))
                return f"classobj:{special or ty.name}"
            return f"Group:{shape}" if ty.name == "Group" and shape else ty.name
        return None

    def apply_contract(self, fi, c, env, fr, path):
        from .vc import eval_spec
        q = fi.qualname
        self.note_kind_gaps(q, c, env, path)
        # precondition: an obligation of the caller
        req = c.get("requires")
        if req:
            g = eval_spec(self, req, env, path, fi)
            if g is not True:
                path.oblige(f"call {q}: precondition", g if g is not False else z3.BoolVal(False), {"callee": q})
        # outcomes
        raises = c.get("raises", {})
        conds = []
        for exc, cond in raises.items():
            cv = eval_spec(self, cond, env, path, fi)
            conds.append((exc, self.truth(cv, path)))
        options = []
        none_ = []
        for exc, cv in conds:
            if cv is True:
                options.append((exc, True))
                none_.append(False)
            elif cv is False:
                continue
            else:
                options.append((exc, cv))
                none_.append(z3.Not(cv))
        if any(x is False for x in none_):
            normal = False
        else:
            normal = z3.And(*none_) if none_ else True
            if normal is not True:
                normal = simplify_bool(normal)
        options.append(("normal", normal))
        for exc in c.get("may_raise", ()):
            options.append((exc, True))         # allowed, condition unspecified: both outcomes are explored
        i = path.choose(options, f"contract {q}")
        name = options[i][0]
        if name != "normal":
            raise RaiseExc(name, info=f"raised by {q} (contract)")
        # normal return: result described by the contract's `returns` constructor
        maker = c.get("returns")
        if maker is None:
            raise Limitation(f"contract of {q} has no `returns` description for call sites")
        return maker(self, path, env, fi)

    # -- python builtins -----------------------------------------------------------------------------
    def call_builtin(self, name, args, kwargs, fr, path):
        h = getattr(self, "bi_" + name, None)
        if h is None:
            raise Limitation(f"builtin {name}")
        return h(args, kwargs, fr, path)

    def bi_isinstance(self, args, kwargs, fr, path):
        v, t = args
        ts = t if isinstance(t, tuple) else (t,)
        r = False
        for one in ts:
            r = r or self.isinstance_one(v, one)
        return r

    def isinstance_one(self, v, t):
        if isinstance(t, PyBuiltin):
            n = t.name
            if n == "int":
                return is_intv(v) or is_boolv(v)
            if n == "bool":
                return is_boolv(v)
            if n == "str":
                return is_strv(v) or isinstance(v, (CharV, RunStr))
            if n == "float":
                return is_realv(v)
            if n == "list":
                return isinstance(v, (list, MapList, TermList)) or (isinstance(v, SymSeq) and v.label.startswith("strlist"))
            if n == "tuple":
                return isinstance(v, tuple)
            if n == "dict":
                return isinstance(v, dict)
            if n == "set":
                return isinstance(v, SetV)
            raise Limitation(f"isinstance(..., {n})")
        if isinstance(t, ClassRef):
            if isinstance(v, Obj) and isinstance(v.cls, ClassInfo) and t.info is not None:
                return v.cls.is_subclass_of(t.info)
            return False
        raise Limitation(f"isinstance with {t!r}")

    def bi_issubclass(self, args, kwargs, fr, path):
        a, b = args
        if isinstance(a, ClassRef) and isinstance(b, ClassRef) and a.info is not None and b.info is not None:
            return a.info.is_subclass_of(b.info)
        if isinstance(a, ClassRef) and isinstance(b, ClassRef):
            return False
        if isinstance(a, PyTypeOf):
            return False
        raise Limitation(f"issubclass({a!r}, {b!r})")

    def bi_sorted(self, args, kwargs, fr, path):
        v = args[0]
        if isinstance(v, (list, tuple)) and not kwargs and (all(isinstance(x, str) for x in v) or
                                                           all(isinstance(x, int) and not isinstance(x, bool) for x in v)):
            return sorted(v)
        raise Limitation("sorted() of a non-constant sequence")

    def bi_len(self, args, kwargs, fr, path):
        (v,) = args
        if isinstance(v, AbsSet):
            # every item denotes at least one code point: the set is empty iff its denotation is
            n = self.fresh("abslen", IntS)
            x = z3.Int("x!len")
            path.assume(n >= 0)
            path.assume((n == 0) == z3.ForAll([x], z3.Not(v.mem(x))))
            return n
        if isinstance(v, (str, tuple, list, dict)):
            return len(v)
        if isinstance(v, SetV):
            return v.length(self, path)
        if isinstance(v, SStr):
            return z3.Length(v.term())
        if isinstance(v, (SymSeq, MapList)):
            return v.length
        if isinstance(v, CharV):
            return 1
        if isinstance(v, RunStr):
            return v.n
        if isinstance(v, CharPair):
            return 2
        raise RaiseExc("TypeError", implicit=True, info=f"len() of {kind_of(v)}")

    def bi_str(self, args, kwargs, fr, path):
        if not args:
            return ""
        return self.to_str(args[0], fr, path)

    def bi_bool(self, args, kwargs, fr, path):
        if not args:
            return False
        return self.truth(args[0], path)

    def bi_int(self, args, kwargs, fr, path):
        raise Limitation("int()")

    def bi_list(self, args, kwargs, fr, path):
        if not args:
            c = self.contracts.get(getattr(fr.func, "qualname", None)) or {}
            if c.get("lists") == "concrete":
                return []
            return TermList()
        v = args[0]
        if isinstance(v, (tuple, list)):
            return list(v)
        if isinstance(v, (SymSeq, MapList)):
            return MapList(v.length, v.getter, getattr(v, "elem_kind", "val"), "list()") if isinstance(v, MapList) else v
        if isinstance(v, SetV):
            return v.to_list(self, path)
        if isinstance(v, TermList):
            return v
        if isinstance(v, AbsSet):
            c = self.contracts.get(getattr(fr.func, "qualname", None)) or {}
            if c.get("enumerate_sets"):
                self.enumerate_chars_as_runs = c.get("enumerate_sets") == "runs"
                try:
                    return v.materialise(self, path)     # the function indexes / pops the list: some enumeration of the set
                finally:
                    self.enumerate_chars_as_runs = False
            return v            # the order of a set's elements is arbitrary; only the denotation is tracked
        raise Limitation(f"list({v!r})")

    def bi_tuple(self, args, kwargs, fr, path):
        if not args:
            return ()
        v = args[0]
        if isinstance(v, (tuple, list)):
            return tuple(v)
        if isinstance(v, (SymSeq, TermList, FiltSeq)):
            return v
        raise Limitation(f"tuple({v!r})")

    def bi_dict(self, args, kwargs, fr, path):
        if not args:
            return TermDict()
        raise Limitation("dict(x)")

    def bi_set(self, args, kwargs, fr, path):
        if not args:
            c = self.contracts.get(getattr(fr.func, "qualname", None)) or {}
            if c.get("lists") == "concrete":
                return MapList(z3.IntVal(0), lambda k: None, "val", "set()")     # accumulator: add() appends
            return SetV([])
        v = args[0]
        if isinstance(v, (list, tuple)):
            return SetV(list(v))
        if isinstance(v, SetV):
            return v
        if isinstance(v, (MapList, SymSeq)):
            return SymSet(v)
        if isinstance(v, (SymSet, AbsSet)):
            return v
        raise Limitation(f"set({v!r})")

    def bi_max(self, args, kwargs, fr, path):
        return self.minmax(args, True, path)

    def bi_min(self, args, kwargs, fr, path):
        return self.minmax(args, False, path)

    def minmax(self, args, is_max, path):
        if len(args) == 1:
            raise Limitation("max/min of an iterable")
        acc = args[0]
        for b in args[1:]:
            if isinstance(acc, CharV) and isinstance(b, CharV):
                c = acc.code >= b.code if is_max else acc.code <= b.code
                acc = CharV(z3.If(c, zterm(acc.code), zterm(b.code))) if is_sym(c) else (acc if c else b)
                continue
            self.need_num(acc, b)
            x, y = to_arith(acc), to_arith(b)
            c = (x >= y) if is_max else (x <= y)
            if is_sym(c):
                acc = z3.If(c, zterm(x), zterm(y))
            else:
                acc = x if c else y
        return acc

    def bi_ord(self, args, kwargs, fr, path):
        (v,) = args
        if isinstance(v, CharV):
            return v.code
        if isinstance(v, RunStr):
            one = zterm(v.n) == 1
            if not path.implied(one) and path.branch(z3.Not(one), "ord-len"):
                raise RaiseExc("TypeError", implicit=True, info="ord() of a string of length 2")
            return v.lo.code
        if isinstance(v, str):
            if len(v) != 1:
                raise RaiseExc("TypeError", implicit=True, info=f"ord() of a string of length {len(v)}")
            return ord(v)
        if isinstance(v, SStr):
            t = v.term()
            if not path.implied(z3.Length(t) == 1):
                raise RaiseExc("TypeError", implicit=True, info="ord() of a string whose length may differ from 1")
            return z3.StrToCode(t)
        raise RaiseExc("TypeError", implicit=True, info=f"ord() of {kind_of(v)}")

    def bi_chr(self, args, kwargs, fr, path):
        (v,) = args
        self.need_num(v)
        x = to_arith(v)
        if is_sym(x):
            ok = z3.And(x >= 0, x <= 0x10FFFF)
            if not path.implied(ok):
                if path.branch(z3.Not(ok), "chr-range"):
                    raise RaiseExc("ValueError", implicit=True, info="chr() argument out of range")
            return CharV(z3.simplify(x))
        if x < 0 or x > 0x10FFFF:
            raise RaiseExc("ValueError", implicit=True, info="chr() argument out of range")
        return chr(x)

    def bi_range(self, args, kwargs, fr, path):
        if all(isinstance(a, int) for a in args):
            return list(range(*args))
        if len(args) == 1:
            n = zterm(to_arith(args[0]))
            return SymSeq(z3.If(n < 0, 0, n), lambda i: i, "range")
        if len(args) == 2:
            a, b = zterm(to_arith(args[0])), zterm(to_arith(args[1]))
            return SymSeq(z3.If(b - a < 0, 0, b - a), lambda i, a=a: a + i, "range")
        raise Limitation("range with step")

    def bi_enumerate(self, args, kwargs, fr, path):
        (v,) = args
        if isinstance(v, (list, tuple)):
            return [(i, x) for i, x in enumerate(v)]
        if isinstance(v, (SymSeq, MapList)):
            g = v.getter
            return SymSeq(v.length, lambda i: (i, g(i)), "enumerate")
        raise Limitation(f"enumerate({v!r})")

    def bi_zip(self, args, kwargs, fr, path):
        if all(isinstance(a, (list, tuple, str)) for a in args):
            return [tuple(t) for t in zip(*args)]
        raise Limitation("zip of symbolic sequences")

    def bi_open(self, args, kwargs, fr, path):
        from .remodel import ext_open
        return ext_open(self, path, args, kwargs)

    def bi_getattr(self, args, kwargs, fr, path):
        obj, name = args[0], args[1]
        if not isinstance(name, str):
            raise Limitation("getattr with a symbolic name")
        return self.getattr(obj, name, fr, path)

    def bi_print(self, args, kwargs, fr, path):
        return None

    def bi_repr(self, args, kwargs, fr, path):
        (v,) = args
        if isinstance(v, Obj):
            return self.call_method(v, "__repr__", [], {}, fr, path)
        raise Limitation("repr()")

    def bi_type(self, args, kwargs, fr, path):
        (v,) = args
        if isinstance(v, Obj) and isinstance(v.cls, ClassInfo):
            return ClassRef(v.cls.name, v.cls, v.cls.pyobj)
        return PyTypeOf(v)

    def bi_any(self, args, kwargs, fr, path):
        (v,) = args
        if isinstance(v, (list, tuple)):
            for x in v:
                if path.branch(x, "any"):
                    return True
            return False
        if isinstance(v, (SymSeq, MapList)):
            k = self.fresh("k", IntS)
            elem = v.getter(k)
            t = self.truth(elem, path)
            if isinstance(t, bool):
                return simplify_bool(v.length > 0) if t else False
            return z3.Exists([k], z3.And(k >= 0, k < v.length, t))
        raise Limitation(f"any({v!r})")

    def bi_all(self, args, kwargs, fr, path):
        (v,) = args
        if isinstance(v, (list, tuple)):
            for x in v:
                if not path.branch(x, "all"):
                    return False
            return True
        if isinstance(v, (SymSeq, MapList)):
            k = self.fresh("k", IntS)
            t = self.truth(v.getter(k), path)
            if isinstance(t, bool):
                return True if t else simplify_bool(v.length == 0)
            return z3.ForAll([k], z3.Implies(z3.And(k >= 0, k < v.length), t))
        raise Limitation(f"all({v!r})")

    def bi_map(self, args, kwargs, fr, path):
        f, seq = args
        if isinstance(seq, (list, tuple)):
            return [self.call(f, [x], {}, fr, path) for x in seq]
        raise Limitation("map over a symbolic sequence")

    # -- methods of built-in values ------------------------------------------------------------------
    def call_value_method(self, recv, name, args, kwargs, fr, path):
        if is_strv(recv):
            return self.str_method(recv, name, args, kwargs, fr, path)
        if isinstance(recv, list):
            if name == "append":
                recv.append(args[0])
                return None
            if name == "pop":
                return recv.pop(*args)
            if name == "extend":
                recv.extend(args[0])
                return None
        if isinstance(recv, dict):
            if name == "items":
                return list(recv.items())
            if name == "keys":
                return list(recv.keys())
            if name == "values":
                return list(recv.values())
            if name == "update":
                recv.update(args[0])
                return None
        h = getattr(recv, "m_" + name, None)
        if h is not None:
            return h(self, path, fr, *args, **kwargs)
        raise Limitation(f"method {name} of {kind_of(recv)}")

    def str_method(self, recv, name, args, kwargs, fr, path):
        if name == "join" and recv == "" and len(args) == 1 and isinstance(args[0], AbsSet):
            st = args[0]
            if st.joined is None:
                if not st.escaped:
                    raise Limitation("''.join() of class items that are not in their escaped (printable) form")
                # R7 (printing): escaped items written one after the other between brackets list exactly what they denote
                j = SStr([Atom(self.fresh("joined", StrS), "opq", {"key": f"joined{self.fresh_id()}"})])
                MEMTXT = self.spec_builtins["TV"].__globals__["MEMTXT"]
                x = z3.Int("x!jn")
                for opening in ("[", "[^"):
                    t = str_term(mkstr(opening, j, "]"))
                    path.assume(z3.ForAll([x], MEMTXT(t, x) == st.mem(x), patterns=[MEMTXT(t, x)]))
                st.joined = j
            return st.joined
        if name == "join" and recv == "" and len(args) == 1 and is_strv(args[0]):
            return args[0]              # ''.join(s) of a string is the string
        if name == "join" and isinstance(recv, str) and len(args) == 1 and isinstance(args[0], (tuple, list)):
            parts = []
            for i, x in enumerate(args[0]):
                if not is_strv(x):
                    raise RaiseExc("TypeError", implicit=True, info=f"join(): item {i} is {kind_of(x)}")
                if i and recv:
                    parts.append(recv)
                parts.append(x)
            return mkstr(*parts) if parts else ""
        if isinstance(recv, str) and all(isinstance(a, (str, int, tuple)) and not is_sym(a) for a in args):
            return getattr(recv, name)(*args)
        if name == "startswith" and isinstance(args[0], str):
            p = args[0]
            # structural: concrete leading piece
            if isinstance(recv, SStr) and recv.pieces and isinstance(recv.pieces[0], str):
                head = recv.pieces[0]
                if len(head) >= len(p):
                    return head.startswith(p)
                if not p.startswith(head):
                    return False
            return simplify_bool(z3.PrefixOf(z3.StringVal(p), str_term(recv)))
        if name == "endswith" and isinstance(args[0], str):
            p = args[0]
            if isinstance(recv, SStr) and recv.pieces and isinstance(recv.pieces[-1], str):
                tail = recv.pieces[-1]
                if len(tail) >= len(p):
                    return tail.endswith(p)
                if not p.endswith(tail):
                    return False
            return simplify_bool(z3.SuffixOf(z3.StringVal(p), str_term(recv)))
        if name == "replace" and len(args) == 3 and args[2] == 1 and isinstance(args[0], str) and isinstance(args[1], str):
            old, new = args[0], args[1]
            if isinstance(recv, SStr) and recv.pieces and isinstance(recv.pieces[0], str) and old in recv.pieces[0]:
                return mkstr(recv.pieces[0].replace(old, new, 1), *recv.pieces[1:])
            return SStr([Atom(z3.Replace(str_term(recv), z3.StringVal(old), z3.StringVal(new)), "replace1")])
        if name == "lower" and isinstance(recv, SStr):
            raise Limitation("lower() of a symbolic string")
        h = self.str_ext.get(name)
        if h is not None:
            return h(self, path, recv, args, kwargs)
        raise Limitation(f"str.{name} on a symbolic string")

    str_ext = {}

    def call_method(self, obj, name, args, kwargs, fr, path):
        if not isinstance(obj.cls, ClassInfo):
            raise Limitation(f"method {name} of {obj!r}")
        fi = obj.cls.find_method(name)
        if fi is None:
            raise RaiseExc("AttributeError", implicit=True, info=f"{obj.cls.name}.{name}")
        return self.call_function(fi, [obj] + list(args), kwargs, fr, path)

    def construct(self, cref, args, kwargs, fr, path):
        ci = cref.info
        if ci is None:
            # exception classes and enums of other kinds
            if cref.name in LIB_EXC or cref.name.endswith("Exception"):
                return Obj(cref.name, kind="exception")
            raise Limitation(f"construction of {cref.name}")
        if ci.name in LIB_EXC:
            return Obj(ci.name, kind="exception")
        init = ci.find_method("__init__")
        if init is None:
            raise Limitation(f"{ci.name} has no __init__")
        if not ci.name.startswith("_") and all(_is_concrete(a, path) for a in list(args) + list(kwargs.values())):
            # a public constructor applied to constants: the real code is run on them (concrete execution)
            g = self.concrete_construct(ci, args, kwargs, fr, path)
            if g is not None:
                return g
        c = self.contracts.get(f"new:{ci.module.name}.{ci.name}")
        if c is not None:
            env = self.bind_args(init, [None] + list(args), kwargs, fr, path)
            env.pop("self", None)
            return self.apply_contract(FakeFi(f"new:{ci.module.name}.{ci.name}", init), c, env, fr, path)
        if self.contracts.get(init.qualname) is None and not self.contracts.get(getattr(init, "qualname", ""), {}).get("inline"):
            g = self.generic_construct(ci, args, kwargs, fr, path)
            if g is not None:
                return g
        obj = Obj(ci, kind="pregex")
        self.call_function(init, [obj] + list(args), kwargs, fr, path)
        return obj

    def generic_construct(self, ci, args, kwargs, fr, path):
        return None

    def concrete_construct(self, ci, args, kwargs, fr, path):
        return None

    # =================================================================================================
    # statements
    # =================================================================================================
    def run_body(self, body, fr, path):
        for st in body:
            self.stmt(st, fr, path)

    def stmt(self, node, fr, path):
        m = getattr(self, "st_" + type(node).__name__, None)
        if m is None:
            raise Limitation(f"statement {type(node).__name__} at line {getattr(node, 'lineno', '?')}")
        return m(node, fr, path)

    def st_Expr(self, node, fr, path):
        if isinstance(node.value, ast.Constant):
            return
        if isinstance(node.value, ast.Yield):
            v = self.ev(node.value.value, fr, path) if node.value.value is not None else None
            if path.yields is None:
                raise Limitation("yield outside a generator")
            if isinstance(path.yields, list):
                path.yields.append(v)
            else:
                raise Limitation("yield into a symbolic stream")
            return
        self.ev(node.value, fr, path)

    def st_Pass(self, node, fr, path):
        return

    def st_Assign(self, node, fr, path):
        v = self.ev(node.value, fr, path)
        for t in node.targets:
            self.assign(t, v, fr, path)

    def st_AnnAssign(self, node, fr, path):
        if node.value is not None:
            self.assign(node.target, self.ev(node.value, fr, path), fr, path)

    def st_AugAssign(self, node, fr, path):
        cur = self.ev(ast_load(node.target), fr, path)
        v = self.ev(node.value, fr, path)
        self.assign(node.target, self.binop(node.op, cur, v, fr, path, node), fr, path)

    def assign(self, target, v, fr, path):
        if isinstance(target, ast.Name):
            fr.env[target.id] = v
        elif isinstance(target, (ast.Tuple, ast.List)):
            items = self.unpack(v, len(target.elts), path)
            for t, x in zip(target.elts, items):
                self.assign(t, x, fr, path)
        elif isinstance(target, ast.Attribute):
            base = self.ev(target.value, fr, path)
            if not isinstance(base, Obj):
                raise Limitation("attribute store on a non-object")
            path.setf(base, mangle(target.attr, fr.cls), v)
        elif isinstance(target, ast.Subscript):
            if isinstance(target.value, ast.Subscript) and isinstance(target.value.value, ast.Name) \
                    and isinstance(fr.env.get(target.value.value.id), MapList):
                # lst[j][c] = v  : update one component of a pair element
                lst = fr.env[target.value.value.id]
                j = self.ev(target.value.slice, fr, path)
                c = self.ev(target.slice, fr, path)
                if c not in (0, 1):
                    raise Limitation("component store with a symbolic component")
                lo, hi = lst.getter(zterm(j)).items
                newel = CharPair(v, hi) if c == 0 else CharPair(lo, v)
                fr.env[target.value.value.id] = lst.set(self, path, j, newel)
                return
            base = self.ev(target.value, fr, path)
            idx = self.ev(target.slice, fr, path)
            self.store_index(target.value, base, idx, v, fr, path)
        else:
            raise Limitation(f"assignment target {type(target).__name__}")

    def unpack(self, v, n, path):
        if isinstance(v, (tuple, list)):
            if len(v) != n:
                raise RaiseExc("ValueError", implicit=True, info="unpacking arity")
            return list(v)
        if isinstance(v, CharPair):
            if n != 2:
                raise RaiseExc("ValueError", implicit=True, info="unpacking arity")
            return list(v.items)
        raise Limitation(f"unpacking of {v!r}")

    def store_index(self, base_node, base, idx, v, fr, path):
        if isinstance(base, list) and isinstance(idx, int):
            base[idx] = v
            return
        if isinstance(base, dict):
            base[idx] = v
            return
        if isinstance(base, MapList):
            new = base.set(self, path, idx, v)
            self.assign(base_node_store(base_node), new, fr, path)
            return
        if isinstance(base, CharPair):
            # ranges[j][0] = c   : nested store, handled by the MapList element update in the caller pattern
            raise Limitation("store into a pair value (use MapList.set_component)")
        raise Limitation(f"indexed store into {base!r}")

    def st_Return(self, node, fr, path):
        raise ReturnExc(self.ev(node.value, fr, path) if node.value is not None else None)

    def st_Raise(self, node, fr, path):
        if node.exc is None:
            raise Limitation("bare raise")
        e = self.ev(node.exc, fr, path)
        if isinstance(e, Obj) and e.kind == "exception":
            raise RaiseExc(e.cls if isinstance(e.cls, str) else e.cls.name, e)
        if isinstance(e, ClassRef):
            raise RaiseExc(e.name)
        raise Limitation(f"raise of {e!r}")

    def st_If(self, node, fr, path):
        c = self.ev(node.test, fr, path)
        if path.branch(c, f"if@{node.lineno}"):
            self.run_body(node.body, fr, path)
        else:
            self.run_body(node.orelse, fr, path)

    def st_Break(self, node, fr, path):
        raise BreakExc()

    def st_Continue(self, node, fr, path):
        raise ContinueExc()

    def st_FunctionDef(self, node, fr, path):
        fi = None
        if fr.func is not None and node.name in getattr(fr.func, "nested", {}):
            fi = fr.func.nested[node.name]
        fr.env[node.name] = NestedFunc(node, fr, fi)

    def st_For(self, node, fr, path):
        from .loops import run_for
        return run_for(self, node, fr, path)

    def st_While(self, node, fr, path):
        from .loops import run_while
        return run_while(self, node, fr, path)

    def st_With(self, node, fr, path):
        if len(node.items) != 1:
            raise Limitation("with: several items")
        it = node.items[0]
        cm = self.ev(it.context_expr, fr, path)
        if not isinstance(cm, FileV):
            raise Limitation("with: only open() is supported")
        if it.optional_vars is not None:
            self.assign(it.optional_vars, cm, fr, path)
        self.run_body(node.body, fr, path)

    def st_Try(self, node, fr, path):
        from .loops import run_try
        return run_try(self, node, fr, path)

    def st_Import(self, node, fr, path):
        raise Limitation("local import")


# -----------------------------------------------------------------------------------------------------
# helper value classes that need the engine

class PyBuiltin:
    def __init__(self, name):
        self.name = name

    def __repr__(self):
        return f"<builtin {self.name}>"


class BuiltinSpec:
    def __init__(self, name):
        self.name = name


class SpecFunc:
    def __init__(self, name, node, module):
        self.name, self.node, self.module = name, node, module


class PyTypeOf:
    def __init__(self, v):
        self.v = v


class FakeFi:
    def __init__(self, qualname, fi):
        self.qualname = qualname
        self.node, self.cls, self.module = fi.node, fi.cls, fi.module


class StarSeq:
    def __init__(self, seq):
        self.seq = seq


class FileV:
    def __init__(self, path_value):
        self.path_value = path_value

    def m_read(self, eng, path, fr):
        from .remodel import read_file
        return read_file(eng, path, self.path_value, getattr(self, "mode", "r"), getattr(self, "encoding", None))


class NestedFunc:
    def __init__(self, node, fr, fi):
        self.node, self.fr, self.fi = node, fr, fi


class CharV:
    """a one-character string, as its code point (E3)"""

    def __init__(self, code):
        self.code = code

    def as_str(self):
        if is_sym(self.code):
            return SStr([Atom(z3.StrFromCode(self.code), "char", self.code)])
        return chr(self.code)

    def __repr__(self):
        return f"<Char {self.code}>"


class RunStr:
    """a string of one character (n == 1, lo == hi) or of two characters lo + hi (n == 2): the items __chars_to_ranges keeps
    in its work list - a single character, or the first and last character of a run of adjacent characters"""

    def __init__(self, lo, hi, n):
        self.lo, self.hi, self.n = lo, hi, n

    @property
    def code(self):
        return self.lo.code         # as a character (meaningful when n == 1)

    def __repr__(self):
        return f"<Run {self.lo.code}..{self.hi.code} n={self.n}>"


def as_run(v):
    if isinstance(v, RunStr):
        return v
    if isinstance(v, CharV):
        return RunStr(v, v, 1)
    return None


class CharPair:
    """a 2-element list/tuple of characters (a range)"""

    def __init__(self, lo, hi, mutable=False):
        self.items = (lo, hi)
        self.mutable = mutable

    def __repr__(self):
        return f"<Pair {self.items}>"


class SetV:
    """python set with a concrete number of (possibly symbolic) elements"""

    def __init__(self, items):
        self.items = list(items)

    def length(self, eng, path):
        if all(isinstance(x, (str, int)) for x in self.items):
            return len(set(self.items))
        raise Limitation("len() of a set with symbolic elements")

    def to_list(self, eng, path):
        return list(self.items)

    def __repr__(self):
        return f"<Set {self.items}>"


class SymSet:
    def __init__(self, seq):
        self.seq = seq

    def m_union(self, eng, path, fr, other):
        return AbsSet.of(eng, path, self).m_union(eng, path, fr, other)

    def m_difference(self, eng, path, fr, other):
        return AbsSet.of(eng, path, self).m_difference(eng, path, fr, other)


class AbsSet:
    """a python set / list of class items (range strings 'a-z' and / or single characters, all unescaped and well formed)
    known only through the set of code points it denotes (`mem`: x -> Bool).  kind: 'range', 'char', 'mix' (ranges and
    characters together) or 'esc' (the items re-escaped for printing; `joined` is then the text of ''.join(...))"""

    def __init__(self, kind, mem, joined=None, escaped=None):
        self.kind, self.mem, self.joined = kind, mem, joined
        self.escaped = (kind == "esc") if escaped is None else escaped      # items written as they appear between brackets

    def __repr__(self):
        return f"<AbsSet {self.kind}>"

    def materialise(self, eng, path):
        """some enumeration of the set: a fresh list of well-formed items that denotes exactly the same code points"""
        from .values import fresh_maplist
        if self.kind not in ("range", "pair", "char"):
            raise Limitation(f"enumeration of an abstract set of kind {self.kind}")
        n = eng.fresh("enum_len", IntS)
        path.assume(n >= 0)
        as_runs = self.kind == "char" and getattr(eng, "enumerate_chars_as_runs", False)
        L = fresh_maplist(eng, "enum", "run" if as_runs else {"range": "rangestr", "pair": "pair", "char": "char"}[self.kind], n)
        sb = eng.spec_builtins
        if as_runs:
            # single characters, held in a list whose items may later become two-character runs
            k = z3.Int("k!enumrun")
            path.assume(sb["WFRUN"](eng, path, L))
            path.assume(z3.ForAll([k], z3.Implies(z3.And(k >= 0, k < n), zterm(L.getter(k).n) == 1)))
            v = sb["RUNV"](eng, path, L)
        elif self.kind == "char":
            path.assume(sb["WFC"](eng, path, L))
            v = sb["CV"](eng, path, L)
        else:
            path.assume(sb["WFR"](eng, path, L))
            v = sb["RV"](eng, path, L)
        x = z3.Int("x!enum")
        path.assume(z3.ForAll([x], v.mem(x) == self.mem(x)))
        return L

    @staticmethod
    def of(eng, path, v):
        """the abstract set a symbolic list / set of class items denotes"""
        if isinstance(v, AbsSet):
            return v
        seq = v.seq if isinstance(v, SymSet) else v
        if isinstance(seq, MapList) and seq.elem_kind in ("char", "rangestr", "pair"):
            sb = eng.spec_builtins
            if seq.elem_kind == "char":
                return AbsSet("char", sb["CV"](eng, path, seq).mem)
            return AbsSet("range" if seq.elem_kind == "rangestr" else "pair", sb["RV"](eng, path, seq).mem)
        raise Limitation(f"no abstract view of {v!r}")

    def m_union(self, eng, path, fr, other):
        if isinstance(other, (SymSet, MapList)):
            other = AbsSet.of(eng, path, other)
        if not isinstance(other, AbsSet):
            raise Limitation(f"union of an abstract class-item set with {other!r}")
        norm = lambda k: "range" if k == "pair" else k
        kind = norm(self.kind) if norm(self.kind) == norm(other.kind) else "mix"
        a, b = self.mem, other.mem
        return AbsSet(kind, lambda x, a=a, b=b: z3.Or(a(x), b(x)), escaped=self.escaped and other.escaped)

    def m_difference(self, eng, path, fr, other):
        # exact on the denotation only for sets of single (unescaped) characters: equal strings <=> equal code points
        if isinstance(other, (SymSet, MapList)):
            other = AbsSet.of(eng, path, other)
        if not (isinstance(other, AbsSet) and self.kind == "char" and other.kind == "char"):
            raise Limitation("difference of abstract class-item sets that are not both sets of characters")
        a, b = self.mem, other.mem
        return AbsSet("char", lambda x, a=a, b=b: z3.And(a(x), z3.Not(b(x))))


class FiltSeq:
    """filtered view of an oracle sequence; only its identity (an EUF term) is known"""

    def __init__(self, vterm, key):
        self.vterm, self.key = vterm, key

    def box(self):
        return self.vterm


class TermDict:
    def __init__(self, term=None):
        self.term = NIL if term is None else term

    def m_update(self, eng, path, fr, d):
        if not isinstance(d, dict) or len(d) != 1:
            raise Limitation("dict.update with a non-singleton")
        (k, v), = d.items()
        self.term = APP(self.term, box((k, v)))
        return None

    def box(self):
        return z3.Function("v_dict", L, V)(self.term)

    def __repr__(self):
        return f"<TermDict {self.term}>"


def _tl_append(self, eng, path, fr, x):
    self.term = APP(self.term, box(x))
    return None


TermList.m_append = _tl_append


PY_BUILTINS = {"isinstance", "issubclass", "len", "str", "int", "bool", "float", "list", "tuple", "dict", "set", "max",
               "min", "ord", "chr", "range", "enumerate", "zip", "print", "repr", "type", "any", "all", "map",
               "sorted", "open", "super", "getattr"}


def elem_kind_of(v):
    if isinstance(v, CharV):
        return "char"
    if isinstance(v, RunStr):
        return "run"
    if isinstance(v, CharPair) or (isinstance(v, (tuple, list)) and len(v) == 2 and all(isinstance(x, CharV) for x in v)):
        return "pair"
    try:
        as_pair(v)
        return "rangestr"
    except TypeError:
        return "val"


_qmemo = {}


def has_quantifier(t):
    k = t.get_id()
    if k in _qmemo and _qmemo[k][0].eq(t):
        return _qmemo[k][1]         # (the term is kept alive in the memo: z3 reuses the ids of collected terms)
    seen = set()
    stack = [t]
    res = False
    while stack:
        x = stack.pop()
        if x.get_id() in seen:
            continue
        seen.add(x.get_id())
        if z3.is_quantifier(x):
            res = True
            break
        stack.extend(x.children())
    _qmemo[k] = (t, res)
    return res


def kind_of(v):
    if v is None:
        return "None"
    if is_boolv(v):
        return "bool"
    if is_intv(v):
        return "int"
    if is_realv(v):
        return "float"
    if is_strv(v) or isinstance(v, (CharV, RunStr)):
        return "str"
    if isinstance(v, Obj):
        return v.kind
    return type(v).__name__


def simplify_bool(b):
    if isinstance(b, bool):
        return b
    s = z3.simplify(b)
    if z3.is_true(s):
        return True
    if z3.is_false(s):
        return False
    return s


def ite_chain(i, items, rest):
    """value at symbolic index i of a sequence that starts with concrete `items` and continues with rest(i)"""
    v = rest(i)
    for k in range(len(items) - 1, -1, -1):
        v = merge_values(i == k, items[k], v)
    return v


def merge_values(c, a, b):
    if a is b:
        return a
    if is_numv(a) and is_numv(b):
        return z3.If(c, zterm(to_arith(a)), zterm(to_arith(b)))
    if isinstance(a, tuple) and isinstance(b, tuple) and len(a) == len(b):
        return tuple(merge_values(c, x, y) for x, y in zip(a, b))
    if isinstance(a, CharV) and isinstance(b, CharV):
        return CharV(z3.If(c, zterm(a.code), zterm(b.code)))
    if (isinstance(a, RunStr) or isinstance(b, RunStr)) and as_run(a) is not None and as_run(b) is not None:
        x, y = as_run(a), as_run(b)
        return RunStr(CharV(z3.If(c, zterm(x.lo.code), zterm(y.lo.code))), CharV(z3.If(c, zterm(x.hi.code), zterm(y.hi.code))),
                      z3.If(c, zterm(x.n), zterm(y.n)))
    if isinstance(a, (CharPair, tuple, list)) and isinstance(b, (CharPair, tuple, list)):
        try:
            a1, a2 = as_pair(a)
            b1, b2 = as_pair(b)
            return CharPair(CharV(z3.If(c, a1, b1)), CharV(z3.If(c, a2, b2)))
        except TypeError:
            pass
    if is_strv(a) and is_strv(b):
        try:
            a1, a2 = as_pair(a)
            b1, b2 = as_pair(b)
            return range_string(CharV(z3.If(c, a1, b1)), CharV(z3.If(c, a2, b2)))
        except TypeError:
            pass
        return SStr([Atom(z3.If(c, str_term(a), str_term(b)), "ite")])
    return Merged(c, a, b)


class Merged:
    def __init__(self, c, a, b):
        self.c, self.a, self.b = c, a, b


def ast_load(target):
    import copy
    t = copy.deepcopy(target)
    for n in ast.walk(t):
        if hasattr(n, "ctx"):
            n.ctx = ast.Load()
    return t


def base_node_store(node):
    import copy
    t = copy.deepcopy(node)
    for n in ast.walk(t):
        if hasattr(n, "ctx"):
            n.ctx = ast.Store()
    return t
