"""Concrete (run-time) side of the contract language.  Runs under /venv/bin/python with the real pregex; no z3.

The same clause strings that the verifier evaluates symbolically are evaluated here with python's eval on concrete
arguments and the real function's result: this is the replay of counter-models, the run-time contract monitor and the
bounded stand-in (a contract checked on a stated finite pool of inputs)."""
import importlib, re, sys, types
from . import native as N

_pre = None


def pre():
    global _pre
    if _pre is None:
        _pre = importlib.import_module("pregex.core.pre")
    return _pre


class Witness:
    """a non-integer, non-string, non-Pregex python value"""

    def __repr__(self):
        return "<object>"

    def __eq__(self, other):
        return self is other

    __hash__ = object.__hash__


# ---------------------------------------------------------------------------------------------------
# builtins

def EMPTY(p):
    return isinstance(p, pre().Pregex) and p._get_type() == pre()._Type.Empty


def TYPE(p):
    return p._get_type().name


def TYPEV(p):
    return p._get_type()


def TEXT(p):
    return str(p)


def REPEATABLE(p):
    return p._is_repeatable()


def INT(x):
    return isinstance(x, int) and not isinstance(x, bool)


def BOOLV(x):
    return isinstance(x, bool)


def NONE(x):
    return x is None


def STRV(x):
    return isinstance(x, str)


def FLOATV(x):
    return isinstance(x, float)


def PREGEX(x):
    return isinstance(x, pre().Pregex)


def NUMERIC(x):
    return isinstance(x, (int, float))


def DECS(n):
    return str(n)


def IMPLIES(a, b):
    return (not a) or bool(b)


def SAME_TEXT(a, b):
    return a == b


def RULE(p, idx):
    return bool(pre().Pregex._Pregex__groupping_rules[p._get_type()][idx])


def GRPTEXT(p):
    return str(p.group())


def GROUPED(p):
    return "" if str(p) == "" else "(?:" + str(p) + ")"


def ESC(s):
    out = s.replace("\\", "\\\\")
    for c in "^$()[]{}?+*.|/":
        out = out.replace(c, "\\" + c)
    return out


# -- trees --------------------------------------------------------------------------------------------

def _tree(text):
    N.install_noopt()
    r = N.parse({"patterns": [text]})[0]
    return r


def _norm(tree):
    out = []
    for op, av in tree:
        if op in ("MAX_REPEAT", "MIN_REPEAT"):
            lo, hi, body = av
            nb = _norm(body)
            if (lo, hi) == (1, 1):
                out.extend(nb)
                continue
            if (lo, hi) == (0, 0):
                continue
            lazy = (op == "MIN_REPEAT") and lo != hi
            out.append(("REP", lazy, lo, hi, nb))
        elif op == "BRANCH":
            alts = []
            for b in av:
                nb = _norm(b)
                if len(nb) == 1 and nb[0][0] == "ALT":
                    alts.extend(nb[0][1])
                else:
                    alts.append(nb)
            out.append(("ALT", tuple(alts)))
        elif op == "SUBPATTERN":
            g, af, df, body = av
            out.append(("GROUP", g, af, df, _norm(body)))
        elif op in ("ASSERT", "ASSERT_NOT"):
            out.append((op, av[0], _norm(av[1])))
        elif op == "GROUPREF_EXISTS":
            out.append((op, av[0], _norm(av[1]), _norm(av[2]) if av[2] is not None else None))
        else:
            out.append((op, _tup(av)))
    return tuple(out)


def _tup(x):
    if isinstance(x, list):
        return tuple(_tup(y) for y in x)
    return x


def SAME_TREE(a, b):
    ra, rb = _tree(a), _tree(b)
    if "error" in rb:
        raise ValueError(f"reference text does not parse: {b!r}: {rb['error']}")
    if "error" in ra:
        return False
    return _norm(ra["tree"]) == _norm(rb["tree"]) and ra["groups"] == rb["groups"] and ra["groupdict"] == rb["groupdict"]


BUILTINS = {k: v for k, v in list(globals().items()) if k.isupper() or k in ("Witness",)}


def helpers_namespace():
    """contracts/spec_helpers.py with the concrete builtins injected"""
    import os
    path = os.path.join(os.path.dirname(os.path.dirname(os.path.abspath(__file__))), "contracts", "spec_helpers.py")
    ns = dict(BUILTINS)
    exec(compile(open(path).read(), path, "exec"), ns)
    return ns


_ns = None


def namespace():
    global _ns
    if _ns is None:
        _ns = helpers_namespace()
    return _ns


def eval_clause(src, env):
    if isinstance(src, bool):
        return src
    ns = dict(namespace())
    ns.update(env)
    return eval(src, ns)
