"""Concrete (run-time) side of the contract language.  Runs under /venv/bin/python with the real pregex; no z3.

The same clause strings that the verifier evaluates symbolically are evaluated here with python's eval on concrete
arguments and the real function's result: this is the replay of counter-models, the run-time contract monitor and the
bounded stand-in (a contract checked on a stated finite pool of inputs)."""
import importlib, re, sys, types
from . import native as N

_pre = None


def pre():
    global _pre
    if _pre is None:
        _pre = importlib.import_module("pregex.core.pre")
    return _pre


class Witness:
    """a non-integer, non-string, non-Pregex python value"""

    def __repr__(self):
        return "<object>"

    def __eq__(self, other):
        return self is other

    __hash__ = object.__hash__


# ---------------------------------------------------------------------------------------------------
# builtins

def EMPTY(p):
    return isinstance(p, pre().Pregex) and p._get_type() == pre()._Type.Empty


def TYPE(p):
    return p._get_type().name


def TYPEV(p):
    return p._get_type()


def TEXT(p):
    return str(p)


def REPEATABLE(p):
    return p._is_repeatable()


def INT(x):
    return isinstance(x, int) and not isinstance(x, bool)


def BOOLV(x):
    return isinstance(x, bool)


def NONE(x):
    return x is None


def STRV(x):
    return isinstance(x, str)


def FLOATV(x):
    return isinstance(x, float)


def PREGEX(x):
    return isinstance(x, pre().Pregex)


def NUMERIC(x):
    return isinstance(x, (int, float))


def DECS(n):
    return str(n)


def IMPLIES(a, b):
    return (not a) or bool(b)


def SAME_TEXT(a, b):
    return a == b


def RULE(p, idx):
    return bool(pre().Pregex._Pregex__groupping_rules[p._get_type()][idx])


def GRPTEXT(p):
    return str(p.group())


def GROUPED(p):
    return "" if str(p) == "" else "(?:" + str(p) + ")"


def ESC(s):
    out = s.replace("\\", "\\\\")
    for c in "^$()[]{}?+*.|/":
        out = out.replace(c, "\\" + c)
    return out


# -- trees --------------------------------------------------------------------------------------------

def _tree(text):
    N.install_noopt()
    r = N.parse({"patterns": [text]})[0]
    return r


def _norm(tree):
    out = []
    for op, av in tree:
        if op in ("MAX_REPEAT", "MIN_REPEAT"):
            lo, hi, body = av
            nb = _norm(body)
            if (lo, hi) == (1, 1):
                out.extend(nb)
                continue
            if (lo, hi) == (0, 0):
                continue
            lazy = (op == "MIN_REPEAT") and lo != hi
            out.append(("REP", lazy, lo, hi, nb))
        elif op == "BRANCH":
            alts = []
            for b in av:
                nb = _norm(b)
                if len(nb) == 1 and nb[0][0] == "ALT":
                    alts.extend(nb[0][1])
                else:
                    alts.append(nb)
            out.append(("ALT", tuple(alts)))
        elif op == "SUBPATTERN":
            g, af, df, body = av
            out.append(("GROUP", g, af, df, _norm(body)))
        elif op in ("ASSERT", "ASSERT_NOT"):
            out.append((op, av[0], _norm(av[1])))
        elif op == "GROUPREF_EXISTS":
            out.append((op, av[0], _norm(av[1]), _norm(av[2]) if av[2] is not None else None))
        else:
            out.append((op, _tup(av)))
    return tuple(out)


def _tup(x):
    if isinstance(x, list):
        return tuple(_tup(y) for y in x)
    return x


def _ref_prefix(a, b):
    """both texts are read behind one prefix that defines the groups they only refer to (C03 excepts such references)"""
    need, maxnum = [], 0
    for t in (b, a):
        for m in re.finditer(r"\(\?\((\w+)\)|\(\?P=(\w+)\)", t):
            nm = m.group(1) or m.group(2)
            if nm.isdigit():
                maxnum = max(maxnum, int(nm))
            elif ("(?P<%s>" % nm) not in b and nm not in need:
                need.append(nm)
        for m in re.finditer(r"(?<!\\)(?:\\\\)*\\([1-9]\d?)", t):
            maxnum = max(maxnum, int(m.group(1)))
    return "(z)" * maxnum + "".join("(?P<%s>z)" % nm for nm in need)


def SAME_TREE(a, b):
    pre_ = _ref_prefix(a, b)
    ra, rb = _tree(pre_ + a), _tree(pre_ + b)
    if "error" in rb:
        raise ValueError(f"reference text does not parse: {b!r}: {rb['error']}")
    if "error" in ra:
        return False
    return _norm(ra["tree"]) == _norm(rb["tree"]) and ra["groups"] == rb["groups"] and ra["groupdict"] == rb["groupdict"]


BUILTINS = {k: v for k, v in list(globals().items()) if k.isupper() or k in ("Witness",)}


def helpers_namespace():
    """contracts/spec_helpers.py with the concrete builtins injected"""
    import os
    path = os.path.join(os.path.dirname(os.path.dirname(os.path.abspath(__file__))), "contracts", "spec_helpers.py")
    ns = dict(BUILTINS)
    exec(compile(open(path).read(), path, "exec"), ns)
    return ns


_ns = None


def namespace():
    global _ns
    if _ns is None:
        _ns = helpers_namespace()
    return _ns


def eval_clause(src, env):
    if isinstance(src, bool):
        return src
    ns = dict(namespace())
    ns.update(env)
    return eval(src, ns)


# ---- matching API (concrete R8 oracle = the real re module) --------------------------------------------------------
FLAGS_MS = re.M | re.S


def TXT(source, is_path):
    if is_path:
        with open(source, "r", encoding="utf-8") as f:
            return f.read()
    return source


def READ(source):
    with open(source, "r", encoding="utf-8") as f:
        return f.read()


def FINDITER(p, text):
    return list(re.finditer(str(p), text, FLAGS_MS))


def NMATCHES(p, text):
    return len(FINDITER(p, text))


def FULLMATCHES(p, text):
    return re.fullmatch(str(p), text, FLAGS_MS) is not None


def RESUB(p, repl, text, count):
    return re.sub(str(p), repl, text, count, FLAGS_MS)


def _aslist(x):
    if isinstance(x, (list, tuple)):
        return list(x)
    return list(x)


def SEQ_EQ(a, b):
    return _aslist(a) == _aslist(b)


def SAMESEQ(a, b):
    la, lb = list(a), list(b)
    return [(m.span(), m.groups()) for m in la] == [(m.span(), m.groups()) for m in lb]


def LIST_EQ(a, b):
    return a == b


def NGROUPS(p):
    return re.compile(str(p), FLAGS_MS).groups


def NNAMED(p):
    return len(re.compile(str(p), FLAGS_MS).groupindex)


def CAPPOS(m, include_empty, relative, j):
    out = []
    for i in range(1, j + 1):
        g = m.group(i)
        if include_empty or g != '':
            s, e = m.span(i)
            if relative and s > -1:
                s, e = s - m.start(0), e - m.start(0)
            out.append((g, s, e))
    return out


def NAMEDPOS(m, include_empty, relative, j):
    out = {}
    names = list(m.re.groupindex.items())
    for name, idx in names[:j]:
        g = m.group(idx)
        if include_empty or g != '':
            s, e = m.span(idx)
            if relative and s > -1:
                s, e = s - m.start(0), e - m.start(0)
            out[name] = (g, s, e)
    return out


def PREVEND(p, text, j):
    ms = FINDITER(p, text)
    return 0 if j <= 0 else ms[j - 1].end()


def SPLITS(p, text, j):
    ms = FINDITER(p, text)
    out, prev = [], 0
    for m in ms[:j]:
        out.append(text[prev:m.start()])
        prev = m.end()
    return out


def APPENDED(lst, x):
    return list(lst) + [x]


def SPLIT_BY_CAPTURE_SPEC(p, text, include_empty):
    """pieces of the text between the spans of the participating captures (all, or only the non-empty ones), in order"""
    out, idx = [], 0
    for m in FINDITER(p, text):
        for i in range(1, (m.re.groups or 0) + 1):
            g = m.group(i)
            if g is None:
                continue
            if not include_empty and g == '':
                continue
            s, e = m.span(i)
            out.append(text[idx:s])
            idx = e
    out.append(text[idx:])
    return out


def EXPORTED(p):
    return p.get_pattern()


class _Compiled:
    def __init__(self, c):
        self.c = c


def COMPILED(p):
    return re.compile(p.get_pattern(), FLAGS_MS)


def COMPILED_FIELD(p):
    return p._Pregex__compiled


def SAME_COMPILED(a, b):
    if a is None or b is None:
        return a is None and b is None
    return a.pattern == b.pattern and a.flags == b.flags


def FIXEDW(text):
    try:
        re.compile("(?<=%s)" % text, FLAGS_MS)
    except re.error as e:
        if e.msg == "look-behind requires fixed-width pattern":
            return False
    return True


BUILTINS = {k: v for k, v in list(globals().items()) if k.isupper() or k in ("Witness",)}


def VALIDNAME(name):
    return re.fullmatch(r"[A-Za-z_]\w*", name) is not None


def BREFNAME(name):
    return re.fullmatch(r"[A-Za-z_][A-Za-z_0-9]*", name) is not None


def TP(x):
    return pre().Pregex._to_pregex(x)


def METHOD(obj, name, *args):
    return getattr(obj, name)(*args)


def _group_shape(p):
    t = str(p)
    if t.startswith("(?:"):
        return "nc", t[3:-1], None
    if t.startswith("(?i:"):
        return "nci", t[4:-1], None
    if t.startswith("(?P<"):
        i = t.index(">")
        return "named", t[i + 1:-1], t[4:i]
    if t.startswith("(?!"):
        return "neglook", t[3:-1], None
    if t.startswith("(?<!"):
        return "neglookbehind", t[4:-1], None
    if t.startswith("(?("):
        return "cond", None, None
    if t.startswith("(?P="):
        return "bref", None, None
    if t.startswith("(?"):
        return "other", None, None
    return "cap", t[1:-1], None


def SHAPE(p):
    return _group_shape(p)[0]


def BODY(p):
    return _group_shape(p)[1]


def GNAME(p):
    return _group_shape(p)[2]


def CALLEE_RAISES(qualshort, exc, selfobj, *args):
    import contracts, inspect
    q = "pregex.core.pre.Pregex." + qualshort
    c = contracts.ALL[q]
    f = getattr(pre().Pregex, qualshort)
    ba = inspect.signature(f).bind(selfobj, *args)
    ba.apply_defaults()
    cond = c.get("raises", {}).get(exc)
    return bool(cond) and bool(eval_clause(cond, dict(ba.arguments)))


def FIRST_EXC(qualshort, selfobj, *args):
    import contracts
    q = "pregex.core.pre.Pregex." + qualshort
    for exc in contracts.ALL[q].get("raises", {}):
        if CALLEE_RAISES(qualshort, exc, selfobj, *args):
            return exc
    return ""


def INFERRED(p):
    t, r = pre().Pregex._Pregex__infer_type(str(p))
    return p._get_type() == t and p._is_repeatable() == r


BUILTINS = {k: v for k, v in list(globals().items()) if k.isupper() or k in ("Witness",)}


# ---- interval views (concrete) ----------------------------------------------------------------------------------
def _pair(el):
    if isinstance(el, str):
        a, b = el[0], el[-1]
    else:
        a, b = el
    return ord(a), ord(b)


def RV(lst):
    out = set()
    for el in lst:
        a, b = _pair(el)
        out.update(range(a, b + 1))
    return out


def CV(lst):
    return {ord(c) for c in lst}


def VU(*vs):
    out = set()
    for v in vs:
        out |= v
    return out


def VM(a, b):
    return a - b


def VEQ(a, b):
    return a == b


def WFR(lst):
    return all(0 <= _pair(el)[0] <= _pair(el)[1] <= 0x10FFFF for el in lst)


def WFC(lst):
    return all(isinstance(c, str) and len(c) == 1 for c in lst)


def LEN(lst):
    return len(lst)


BUILTINS = {k: v for k, v in list(globals().items()) if k.isupper() or k in ("Witness",)}


def LISTV(x):
    return isinstance(x, list)


def RAWTEXT(x):
    return str(x)


def ORD(s):
    return ord(s)


def CLASSARG(p):
    return getattr(p, "_ghost_classarg", "<no bracket text recorded for this instance>")


def NEGATED(p):
    return p._Class__is_negated


_TV_UNIVERSE = None


def TV(text):
    """the code points a bracket text lists (for '[^...]' the excluded ones), as `re` reads it - over all code points"""
    import re
    global _TV_UNIVERSE
    if _TV_UNIVERSE is None:
        _TV_UNIVERSE = "".join(chr(c) for c in range(0x110000) if not 0xD800 <= c <= 0xDFFF)
    if text == ".":
        return {ord(c) for c in _TV_UNIVERSE}
    body = text[2:-1] if text.startswith("[^") else text[1:-1]
    if body == "":
        return set()
    return {ord(c) for c in re.findall("[" + body + "]", _TV_UNIVERSE, re.S)}


def CALLQ(qualname, *args):
    from pvc import bex_contract
    owner, f = bex_contract.resolve(qualname)
    return f(*args)


def PAT(text):
    return pre().Pregex(text, escape=False)


def NEW(cname, *args):
    from pvc.native import pregex_ns
    return pregex_ns()[cname](*args)


def INTB(x):
    return isinstance(x, int)


def NUMERAL_DIGITS(base):
    from pregex.meta.essentials import Numeral
    return Numeral(base, 1, 1, True)


def CLASS_TEXT_WF(t):
    """'.', or a bracket text whose only escapes are the six characters the class layer escapes (no \\n, \\d ... items)"""
    import re
    return t == "." or re.fullmatch(r"\[\^?(?:[^\\\[\]]|\\[\\^\[\]\-/])*\]", t, re.S) is not None


def EV(items):
    """what a set of (escaped) class items - range strings and single characters - denotes: as `re` reads them in brackets"""
    items = sorted(items)
    if not items:
        return set()
    return TV("[" + "".join(items) + "]")


def ISGLOBALWORD(x):
    import pregex.core.classes as cl
    return isinstance(x, (cl.AnyWordChar, cl.AnyButWordChar)) and x._is_global()


def VEMPTY(v):
    return len(v) == 0


def ISANY(x):
    import pregex.core.classes as cl
    return isinstance(x, cl.Any)


def ISCLS(x):
    import pregex.core.classes as cl
    return isinstance(x, getattr(cl, "__Class"))


def VERBOSE(p):
    return p._get_verbose_pattern()


def GHOSTOP(p):
    return p._ghost_op


BUILTINS = {k: v for k, v in list(globals().items()) if k.isupper() or k in ("Witness",)}
