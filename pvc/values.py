"""Value domain of the symbolic executor (DESIGN 3.2, E1-E12).

ints / bools / floats : python values when concrete, z3 Int / Bool / Real terms when symbolic
strings               : python str when concrete, SStr (tuple of pieces: str | Atom) when symbolic
objects               : Obj (record of fields; Pregex values and exceptions), identity = Obj.oid
sequences             : python tuple/list when the length is concrete; SymSeq (length term + getter) otherwise
accumulators          : TermList - a list built by append(), kept as an EUF term over the value sort V
dynamic arguments     : enumerated by tag before execution (see vc.py), so a value always has one python-level kind
"""
import itertools
import z3

_ids = itertools.count(1)

StrS = z3.StringSort()
IntS = z3.IntSort()
BoolS = z3.BoolSort()
V = z3.DeclareSort("V")                     # boxed python value, for EUF list terms
L = z3.DeclareSort("PyList")                # list terms
NIL = z3.Const("nil", L)
APP = z3.Function("app", L, V, L)
V_INT = z3.Function("v_int", IntS, V)
V_BOOL = z3.Function("v_bool", BoolS, V)
V_STR = z3.Function("v_str", StrS, V)
V_NONE = z3.Const("v_none", V)
V_TUP2 = z3.Function("v_tup2", V, V, V)
V_TUP3 = z3.Function("v_tup3", V, V, V, V)
V_TUP = {2: V_TUP2, 3: V_TUP3}
V_LIST = z3.Function("v_list", L, V)
V_OBJ = z3.Function("v_obj", IntS, V)
PYSLICE = z3.Function("pyslice", StrS, IntS, IntS, StrS)     # s[a:b] with 0 <= a <= b <= len(s) already normalised
DEC = z3.Function("dec", IntS, StrS)                         # str(n) for an int n


class Atom:
    """symbolic piece of a string: wraps a z3 String term; `tag`/`info` say what it stands for"""
    __slots__ = ("term", "tag", "info")

    def __init__(self, term, tag="opq", info=None):
        self.term, self.tag, self.info = term, tag, info

    def key(self):
        return ("atom", self.term.sexpr())

    def __repr__(self):
        return f"<{self.tag}:{self.term}>"


class SStr:
    __slots__ = ("pieces",)

    def __init__(self, pieces):
        out = []
        for p in pieces:
            if isinstance(p, SStr):
                ps = p.pieces
            else:
                ps = (p,)
            for q in ps:
                if isinstance(q, str):
                    if not q:
                        continue
                    if out and isinstance(out[-1], str):
                        out[-1] = out[-1] + q
                    else:
                        out.append(q)
                else:
                    out.append(q)
        self.pieces = tuple(out)

    def key(self):
        return tuple(p if isinstance(p, str) else p.key() for p in self.pieces)

    def is_concrete(self):
        return all(isinstance(p, str) for p in self.pieces)

    def concrete(self):
        return "".join(self.pieces)

    def term(self):
        if not self.pieces:
            return z3.StringVal("")
        ts = [z3.StringVal(p) if isinstance(p, str) else p.term for p in self.pieces]
        return ts[0] if len(ts) == 1 else z3.Concat(*ts)

    def __repr__(self):
        return "S" + repr(self.pieces)


def mkstr(*pieces):
    s = SStr(pieces)
    if s.is_concrete():
        return s.concrete()
    return s


def str_term(v):
    if isinstance(v, str):
        return z3.StringVal(v)
    if isinstance(v, SStr):
        return v.term()
    raise TypeError(f"not a string value: {v!r}")


def str_key(v):
    if isinstance(v, str):
        return (v,) if v else ()
    return v.key()


class Obj:
    """heap object: Pregex instances, exceptions, match objects ...  Fields live in the State's heap (by oid) so that
    forks do not share mutations."""

    def __init__(self, cls, kind="pregex", oid=None, label=None):
        self.cls = cls              # ClassInfo or a plain name
        self.kind = kind
        self.oid = oid if oid is not None else next(_ids)
        self.label = label

    def __repr__(self):
        return f"<Obj {self.kind} {getattr(self.cls, 'name', self.cls)}#{self.oid}{' ' + self.label if self.label else ''}>"


class Other:
    """a python value of a type the function does not expect (list, object, ...): every operation on it except
    identity / isinstance / == raises TypeError or AttributeError"""

    def __init__(self, label="other"):
        self.label = label

    def __repr__(self):
        return f"<Other {self.label}>"


class Unknown:
    """a value that was not determined by an assumed contract; forcing it is a checker limitation"""

    def __init__(self, what):
        self.what = what

    def __repr__(self):
        return f"<Unknown {self.what}>"


class SymSeq:
    """immutable sequence of symbolic length: length term + getter(index term) -> value"""

    def __init__(self, length, getter, label="seq"):
        self.length, self.getter, self.label = length, getter, label

    def __repr__(self):
        return f"<SymSeq {self.label} len={self.length}>"


class MapList:
    """mutable python list (or a set used as an accumulator) of symbolic length, lists-as-maps (E6).  An immutable value:
    every mutation yields a new MapList that the executor stores back into the variable."""

    def __init__(self, length, getter, elem_kind="val", label="lst"):
        self.length, self.getter, self.elem_kind, self.label = length, getter, elem_kind, label

    def __repr__(self):
        return f"<MapList {self.label} len={self.length}>"

    # -- functional updates ---------------------------------------------------------------------------
    def set(self, eng, path, idx, v):
        from .symex import merge_values
        i = zterm(idx)
        g = self.getter
        return MapList(self.length, lambda k, g=g, i=i, v=v: merge_values(zterm(k) == i, v, g(k)), self.elem_kind, self.label)

    def pop(self, eng, path, idx=None):
        from .symex import merge_values
        g = self.getter
        n = self.length
        j = zterm(idx) if idx is not None else n - 1
        popped = g(j)
        new = MapList(z3.simplify(n - 1), lambda k, g=g, j=j: merge_values(zterm(k) < j, g(k), g(zterm(k) + 1)), self.elem_kind, self.label)
        return popped, new

    def append(self, eng, path, v):
        from .symex import merge_values
        g = self.getter
        n = self.length
        return MapList(z3.simplify(n + 1), lambda k, g=g, n=n, v=v: merge_values(zterm(k) == n, v, g(k)), self.elem_kind, self.label)

    def concat(self, eng, path, items):
        out = self
        for x in items:
            out = out.append(eng, path, x)
        return out

    def fresh(self, eng, name):
        """havoc: an arbitrary list of the same element kind"""
        n = eng.fresh(name + "_len", IntS)
        return fresh_maplist(eng, name, self.elem_kind, n)


def fresh_maplist(eng, name, kind, n):
    from .symex import CharV, CharPair
    if kind == "char":
        f = z3.Function(f"{name}_c!{eng.fresh_n}", IntS, IntS)
        eng.fresh_n += 1
        return MapList(n, lambda k, f=f: CharV(f(zterm(k))), "char", name)
    if kind == "pair":
        lo = z3.Function(f"{name}_lo!{eng.fresh_n}", IntS, IntS)
        hi = z3.Function(f"{name}_hi!{eng.fresh_n}", IntS, IntS)
        eng.fresh_n += 1
        return MapList(n, lambda k, lo=lo, hi=hi: CharPair(CharV(lo(zterm(k))), CharV(hi(zterm(k)))), "pair", name)
    if kind == "rangestr":
        lo = z3.Function(f"{name}_lo!{eng.fresh_n}", IntS, IntS)
        hi = z3.Function(f"{name}_hi!{eng.fresh_n}", IntS, IntS)
        eng.fresh_n += 1
        return MapList(n, lambda k, lo=lo, hi=hi: range_string(CharV(lo(zterm(k))), CharV(hi(zterm(k)))), "rangestr", name)
    if kind == "run":
        from .symex import RunStr
        lo = z3.Function(f"{name}_lo!{eng.fresh_n}", IntS, IntS)
        hi = z3.Function(f"{name}_hi!{eng.fresh_n}", IntS, IntS)
        nn = z3.Function(f"{name}_n!{eng.fresh_n}", IntS, IntS)
        eng.fresh_n += 1
        return MapList(n, lambda k, lo=lo, hi=hi, nn=nn: RunStr(CharV(lo(zterm(k))), CharV(hi(zterm(k))), nn(zterm(k))), "run", name)
    if kind == "classitem":
        # an accumulator that holds characters and range strings: tag + two codes
        tag = z3.Function(f"{name}_tag!{eng.fresh_n}", IntS, BoolS)
        lo = z3.Function(f"{name}_lo!{eng.fresh_n}", IntS, IntS)
        hi = z3.Function(f"{name}_hi!{eng.fresh_n}", IntS, IntS)
        eng.fresh_n += 1
        raise NotImplementedError
    raise TypeError(f"cannot create an arbitrary list of kind {kind}")


def range_string(lo, hi):
    """the string  lo + '-' + hi  of two characters"""
    return SStr([Atom(z3.StrFromCode(zterm(lo.code)), "char", lo.code), "-", Atom(z3.StrFromCode(zterm(hi.code)), "char", hi.code)])


def as_pair(v):
    """(lo code, hi code) of a range value: a CharPair, a tuple of two characters, or a range string"""
    from .symex import CharV, CharPair
    if isinstance(v, CharPair):
        a, b = v.items
        return zterm(a.code), zterm(b.code)
    if isinstance(v, (tuple, list)) and len(v) == 2 and all(isinstance(x, CharV) for x in v):
        return zterm(v[0].code), zterm(v[1].code)
    if isinstance(v, SStr) and len(v.pieces) == 3 and v.pieces[1] == "-" and all(not isinstance(p, str) and p.tag == "char" for p in (v.pieces[0], v.pieces[2])):
        return zterm(v.pieces[0].info), zterm(v.pieces[2].info)
    if hasattr(v, "c") and hasattr(v, "a") and hasattr(v, "b"):      # Merged
        a1, a2 = as_pair(v.a)
        b1, b2 = as_pair(v.b)
        return z3.If(v.c, a1, b1), z3.If(v.c, a2, b2)
    raise TypeError(f"not a range value: {v!r}")


class TermList:
    """list built by append(); an EUF term of sort PyList"""

    def __init__(self, term=None):
        self.term = NIL if term is None else term

    def __repr__(self):
        return f"<TermList {self.term}>"


class Closure:
    def __init__(self, node, env, cls, module):
        self.node, self.env, self.cls, self.module = node, env, cls, module

    def __repr__(self):
        return f"<Closure line {getattr(self.node, 'lineno', '?')}>"


class ClassRef:
    """reference to a class of the package (or an exception class)"""

    def __init__(self, name, info=None, pyobj=None):
        self.name, self.info, self.pyobj = name, info, pyobj

    def __repr__(self):
        return f"<class {self.name}>"


class ModRef:
    def __init__(self, name, pyobj=None):
        self.name, self.pyobj = name, pyobj

    def __repr__(self):
        return f"<module {self.name}>"


class BoundMethod:
    def __init__(self, recv, name, func=None):
        self.recv, self.name, self.func = recv, name, func

    def __repr__(self):
        return f"<bound {self.name} of {self.recv!r}>"


class FuncRef:
    def __init__(self, qualname, node=None, cls=None, module=None, static=False):
        self.qualname, self.node, self.cls, self.module, self.static = qualname, node, cls, module, static

    def __repr__(self):
        return f"<func {self.qualname}>"


class SuperRef:
    def __init__(self, cls, obj):
        self.cls, self.obj = cls, obj


def is_sym(v):
    return isinstance(v, z3.ExprRef)


def is_boolv(v):
    return isinstance(v, bool) or (is_sym(v) and z3.is_bool(v))


def is_intv(v):
    return (isinstance(v, int) and not isinstance(v, bool)) or (is_sym(v) and z3.is_int(v))


def is_realv(v):
    return isinstance(v, float) or (is_sym(v) and z3.is_real(v))


def is_numv(v):
    return is_boolv(v) or is_intv(v) or is_realv(v)


def is_strv(v):
    return isinstance(v, (str, SStr))


def to_arith(v):
    """numeric view of a python number / bool, as python number or z3 term"""
    if isinstance(v, bool):
        return int(v)
    if isinstance(v, (int, float)):
        return v
    if z3.is_bool(v):
        return z3.If(v, z3.IntVal(1), z3.IntVal(0))
    return v


def zterm(v):
    """z3 term for a numeric/bool value"""
    if isinstance(v, bool):
        return z3.BoolVal(v)
    if isinstance(v, int):
        return z3.IntVal(v)
    if isinstance(v, float):
        return z3.RealVal(v)
    return v


def box(v):
    """boxed EUF term (sort V) of a value"""
    if v is None:
        return V_NONE
    if isinstance(v, bool) or (is_sym(v) and z3.is_bool(v)):
        return V_BOOL(zterm(v))
    if isinstance(v, int) or (is_sym(v) and z3.is_int(v)):
        return V_INT(zterm(v))
    if is_strv(v):
        return V_STR(str_term(v))
    if isinstance(v, tuple) and len(v) in V_TUP:
        return V_TUP[len(v)](*[box(x) for x in v])
    if isinstance(v, TermList):
        return V_LIST(v.term)
    if isinstance(v, Obj):
        return V_OBJ(z3.IntVal(v.oid))
    if is_sym(v) and v.sort() == V:
        return v
    if hasattr(v, "box"):
        return v.box()
    if hasattr(v, "vterm") and v.vterm is not None:
        return v.vterm
    raise TypeError(f"cannot box {v!r}")
