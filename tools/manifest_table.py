"""Per-property claims (edited by hand as the machinery grows); tools/mkmanifest.py turns this into MANIFEST.json."""
HOOK_COMMITS = []

PENDING = "check not built yet in this revision of /verif (work in progress; see DESIGN.md section 8 for the plan)"

CHECKS = {
 "C18": dict(
  category="proof",
  text="Complete decision: IPv4()/IPv6() are executed for their whole parameter domain (is_extensible True/False) and the "
       "language of possible matches of each emitted regex, in every context, is proved equal to (extensible) or sandwiched "
       "around (non-extensible: never glued to digit/dot/colon, always matched between non-word neighbours) the standard's "
       "grammar by regular-language inclusion in z3/cvc5 - for all texts, no bound.",
  note="Relative to axioms R3,R4,R6,R7 about re, CPython's parser as reader of the pattern, the rx2smt translator "
       "(cross-checked against re on sampled texts each run), the solvers' regex theory and specs/ipaddr.py (validated "
       "against ipaddress). Unicode-only digits are excluded from the texts (left unspecified by the property).",
  technique="postcondition on the emitted pattern decided for all texts by SMT regex-theory language inclusion (finite parameter domain executed on the real code)",
  design_ref="DESIGN.md section 8 (C18), 3.6"),
}


PROOF_NOTE = ("Relative to: the R-axioms about re named in the evidence (assumed contracts on the dependency), the class invariant "
              "Inv of operands (= contract of Pregex.__infer_type, only bounded-checked by stand-in B1), the VC generator "
              "pvc/symex.py with encoding assumptions E1-E12 of DESIGN.md, CPython's regex parser as reader of emitted text, z3/cvc5.")

CHECKS["C04"] = dict(
  category="proof",
  text="VCs generated from the real bodies of optional/indefinite/one_or_more/exactly/at_least/at_most/at_least_at_most/__mul__/"
       "__rmul__ (and the helpers they call, each against its own contract): for every inferred operand type, every argument kind "
       "(int, bool, None, float, str, other) and ALL integers, exceptions are raised iff documented and the emitted text parses to "
       "the same tree as the fully parenthesised (?:P){lo,hi}[?] - integer leaves compared by the solver. Unbounded in the integers "
       "and operands.",
  note=PROOF_NOTE + " Bounds below sre MAXREPEAT.",
  technique="contract-based deductive verification: AST->VC symbolic execution of the real methods, callee contracts, z3; tree equality via CPython's parser on placeholder texts",
  design_ref="DESIGN.md section 8 (C04), 3.3, Appendix B.1")
CHECKS["C09"] = dict(
  category="proof",
  text="Proved by VCs: every quantifier entry point raises CannotBeRepeatedException iff the request can repeat, the operand is "
       "non-empty and its repeatable flag is False - for all operands, argument kinds and integers. The VALUE of the flag for each "
       "emitted text (direct anchors/positive look-arounds False, anchor-free patterns True) is the contract of __infer_type and "
       "is only bounded-checked (stand-in B1: ~270k one/two-step DSL expressions per hash seed); that part is exploration.",
  note=PROOF_NOTE,
  technique="contract-based deductive verification of the quantifier methods (z3) + bounded stand-in B1 for the assumed contract of __infer_type",
  design_ref="DESIGN.md section 8 (C09), 7 (B1)")
G5NOTE = ("Relative to the assumed contracts R5/R8 on `re` (pvc/remodel.py): what re finds is uninterpreted; accessors satisfy the "
          "documented relations. B4 (compile(get_pattern()) == compile(pattern)) assumed. Generators are treated as eager (E9).")
CHECKS["C11"] = dict(
  category="proof",
  text="Wiring VCs over the real bodies: has_match/is_exact_match/iterate_*/get_* matches (+_and_pos) return the R8 oracle term for "
       "exactly (pattern, MULTILINE|DOTALL, text) on both the cached-compiled and the uncompiled branch; compile/"
       "get_compiled_pattern/purge preserve the cache invariant and write only the cache (frame), so results are independent of any "
       "history. All patterns, texts, histories - no bound. The same contracts are also evaluated at run time on the real code "
       "(bounded, reported separately).",
  note=G5NOTE, technique="contract-based deductive verification (wiring contracts against an axiomatised re API; EUF/LIA in z3)",
  design_ref="DESIGN.md section 8 (C11)")
CHECKS["C12"] = dict(
  category="proof",
  text="VCs with inner-loop invariants (counter == K and groups == CAPPOS(match, K); NAMEDPOS for the named variant, recursive "
       "spec functions unfolded by z3): every returned entry is (group(i), span(i) - offset) of the same group i / of the group the "
       "name refers to; include_empty removes exactly the '' captures. All group layouts, texts, flag combinations.",
  note=G5NOTE, technique="contract-based deductive verification with loop invariants over EUF list terms (z3)",
  design_ref="DESIGN.md section 8 (C12), Appendix B.4")
CHECKS["C13"] = dict(
  category="proof",
  text="split_by_match: loop invariant proved (index == previous match end, pieces == SPLITS(K)); replace: exact re.sub wiring and "
       "InvalidArgumentValueException iff count < 0; reconstruction lemmas over slices discharged by cvc5/z3 in the string theory. "
       "split_by_capture is outside the verifier's loop forms: its contract is checked by a bounded stand-in only.",
  note=G5NOTE + " split_by_capture: bounded (20 patterns x 14 texts x flags).",
  technique="contract-based deductive verification (loop invariant, string-theory lemmas) + bounded stand-in for split_by_capture",
  design_ref="DESIGN.md section 8 (C13)")
CHECKS["C14"] = dict(
  category="proof",
  text="All public methods with an is_path parameter are enumerated from the signatures each run; each is proved against a contract "
       "stated over text = READ(path) if is_path else source, i.e. m(path, True) == m(READ(path), False); context windows equal "
       "text[max(s-nl,0):min(e+nr,len(text))] with the argument exceptions raised iff documented; windows contain their match (lemma).",
  note=G5NOTE + " READ = open(path,'r',encoding='utf-8').read().",
  technique="contract-based deductive verification (wiring contracts, slice lemmas; z3 + cvc5)",
  design_ref="DESIGN.md section 8 (C14)")
CHECKS["C19"] = dict(
  category="proof",
  text="Complete decision per format: the real Date constructor is executed for each of the 48 documented formats (and formats=None), "
       "both is_extensible settings, and the language of possible matches of the emitted regex in every context is proved equal to the "
       "language generated from the format string (independent table) by regular-language inclusion in both directions - all texts. "
       "Subsets: sampled subsets decided likewise; __date_formats() equals the documented list; undocumented formats rejected (bounded sample).",
  note="Relative to R3,R4,R6,R7, the rx2smt translator (cross-checked against re each run), z3 regex theory + derivative-product "
       "decision procedure (both must agree), specs/dates.py. Arbitrary subsets rest on Either's contract (C02).",
  technique="postcondition on the emitted pattern decided for all texts by regular-language inclusion (z3 regex theory cross-checked by a derivative-product procedure); finite parameter domain executed on the real code",
  design_ref="DESIGN.md section 8 (C19), 3.6")
NOT_APPLICABLE = {p: PENDING for p in ["C%02d" % i for i in range(1, 21)] if p not in CHECKS}

