"""Per-property claims (edited by hand as the machinery grows); tools/mkmanifest.py turns this into MANIFEST.json."""
HOOK_COMMITS = []

PENDING = "check not built yet in this revision of /verif (work in progress; see DESIGN.md section 8 for the plan)"

CHECKS = {
 "C18": dict(
  category="proof",
  text="Complete decision: IPv4()/IPv6() are executed for their whole parameter domain (is_extensible True/False) and the "
       "language of possible matches of each emitted regex, in every context, is proved equal to (extensible) or sandwiched "
       "around (non-extensible: never glued to digit/dot/colon, always matched between non-word neighbours) the standard's "
       "grammar by regular-language inclusion in z3/cvc5 - for all texts, no bound.",
  note="Relative to axioms R3,R4,R6,R7 about re, CPython's parser as reader of the pattern, the rx2smt translator "
       "(cross-checked against re on sampled texts each run), the solvers' regex theory and specs/ipaddr.py (validated "
       "against ipaddress). Unicode-only digits are excluded from the texts (left unspecified by the property).",
  technique="postcondition on the emitted pattern decided for all texts by SMT regex-theory language inclusion (finite parameter domain executed on the real code)",
  design_ref="DESIGN.md section 8 (C18), 3.6"),
}


PROOF_NOTE = ("Relative to: the R-axioms about re named in the evidence (assumed contracts on the dependency), the class invariant "
              "Inv of operands (= contract of Pregex.__infer_type, only bounded-checked by stand-in B1), the VC generator "
              "pvc/symex.py with encoding assumptions E1-E12 of DESIGN.md, CPython's regex parser as reader of emitted text, z3/cvc5.")

F7T = "F7: for EVERY literal string s the type (Empty / Token / Other) and the repeatable flag of Pregex(s) are decided - one-character strings over all code points on the real code, longer ones by following __infer_type statement by statement on the unit-wise escaped text, each step's side condition being a regular-language fact about the REAL regex constant (read from the source each run; look-behinds included) decided by a derivative engine; the body forms are compared with the reviewed ones each run."
CHECKS["C04"] = dict(
  category="proof",
  text="VCs generated from the real bodies of optional/indefinite/one_or_more/exactly/at_least/at_most/at_least_at_most/__mul__/"
       "__rmul__ (and the helpers they call, each against its own contract): for every inferred operand type, every argument kind "
       "(int, bool, None, float, str, other) and ALL integers, exceptions are raised iff documented and the emitted text parses to "
       "the same tree as the fully parenthesised (?:P){lo,hi}[?] - integer leaves compared by the solver. Unbounded in the integers "
       "and operands. The seven class spellings (quantifiers.py) are proved to have the text of the method spelling. "
       "The operand's category (atom or not: decides (?:P) vs P) and the repeatable flag the methods consult (a wrongly refused operand "
       "has no repetitions at all) are __infer_type's assumed contract: bounded stand-in B1 (category and flag clauses), run here and "
       "reported as bounded; for literal-string operands both are decided completely by F7 (see C09), and every bracket text is "
       "shown to be typed Class by F8 (same technique).",
  note=PROOF_NOTE + " Bounds below sre MAXREPEAT.",
  technique="contract-based deductive verification: AST->VC symbolic execution of the real methods, callee contracts, z3; tree equality via CPython's parser on placeholder texts",
  design_ref="DESIGN.md section 8 (C04), 3.3, Appendix B.1")
CHECKS["C09"] = dict(
  category="proof",
  text="Proved by VCs: every quantifier entry point raises CannotBeRepeatedException iff the request can repeat, the operand is "
       "non-empty and its repeatable flag is False - for all operands, argument kinds and integers. The VALUE of the flag for each "
       "emitted text (direct anchors/positive look-arounds False, anchor-free patterns True) is the contract of __infer_type and "
       "bounded-checked in general (stand-in B1: ~270k one/two-step DSL expressions per hash seed); for literal strings - 'every "
       "literal string is repeatable' - it is decided completely: " + F7T,
  note=PROOF_NOTE,
  technique="contract-based deductive verification of the quantifier methods (z3) + complete decision F7 (regular-language facts, derivative engine) for literal operands + bounded stand-in B1 for the rest of the assumed contract of __infer_type",
  design_ref="DESIGN.md section 8 (C09), 7 (B1)")
G5NOTE = ("Relative to the assumed contracts R5/R8 on `re` (pvc/remodel.py): what re finds is uninterpreted; accessors satisfy the "
          "documented relations. B4 (compile(get_pattern()) == compile(pattern)) assumed. Generators are treated as eager (E9).")
CHECKS["C11"] = dict(
  category="proof",
  text="Wiring VCs over the real bodies: has_match/is_exact_match/iterate_*/get_* matches (+_and_pos) return the R8 oracle term for "
       "exactly (pattern, MULTILINE|DOTALL, text) on both the cached-compiled and the uncompiled branch; compile/"
       "get_compiled_pattern/purge preserve the cache invariant and write only the cache (frame), so results are independent of any "
       "history. All patterns, texts, histories - no bound. The same contracts are also evaluated at run time on the real code "
       "(bounded, reported separately). That the EXPORTED text compile() feeds to re denotes the same regex as the pattern is "
       "__repr__'s contract, decided here by F6: the real function equals a unit-wise reference (unit = a character, or a backslash "
       "and the character it escapes) on every string up to length 7 over representatives of the character classes its two regexes "
       "and repr can tell apart, and for EVERY code point the image of each unit parses (CPython's parser, 11 kinds of context) to "
       "what the unit parses to - complete modulo the reviewed body form, which is compared each run; B4 (bounded, end to end: "
       "quotes, backslash runs, control and non-BMP characters, user-written regexes) runs as well.",
  note=G5NOTE, technique="contract-based deductive verification (wiring contracts against an axiomatised re API; EUF/LIA in z3); complete finite decision F6 + bounded stand-in B4 for __repr__",
  design_ref="DESIGN.md section 8 (C11)")
CHECKS["C12"] = dict(
  category="proof",
  text="VCs with inner-loop invariants (counter == K and groups == CAPPOS(match, K); NAMEDPOS for the named variant, recursive "
       "spec functions unfolded by z3): every returned entry is (group(i), span(i) - offset) of the same group i / of the group the "
       "name refers to; include_empty removes exactly the '' captures. All group layouts, texts, flag combinations.",
  note=G5NOTE, technique="contract-based deductive verification with loop invariants over EUF list terms (z3)",
  design_ref="DESIGN.md section 8 (C12), Appendix B.4")
CHECKS["C13"] = dict(
  category="proof",
  text="split_by_match: loop invariant proved (index == previous match end, pieces == SPLITS(K)); replace: exact re.sub wiring and "
       "InvalidArgumentValueException iff count < 0; reconstruction lemmas over slices discharged by cvc5/z3 in the string theory. "
       "split_by_capture: proved against a recursive specification over (match index, group counter) - outer loop cut on the "
       "matches, inner loop folded over the list CAPPOS(match, ...) by its defining recursion; pieces = text[index:start] for every "
       "participating (and, unless include_empty, non-empty) capture in order, then the rest of the text.",
  note=G5NOTE + " The proved contracts are also evaluated at run time on the real code (cross-check, not counted).",
  technique="contract-based deductive verification (loop invariants incl. a fold over a recursively defined list, string-theory lemmas)",
  design_ref="DESIGN.md section 8 (C13)")
CHECKS["C14"] = dict(
  category="proof",
  text="All public methods with an is_path parameter are enumerated from the signatures each run; each is proved against a contract "
       "stated over text = READ(path) if is_path else source, i.e. m(path, True) == m(READ(path), False); context windows equal "
       "text[max(s-nl,0):min(e+nr,len(text))] with the argument exceptions raised iff documented; windows contain their match (lemma).",
  note=G5NOTE + " READ = open(path,'r',encoding='utf-8').read().",
  technique="contract-based deductive verification (wiring contracts, slice lemmas; z3 + cvc5)",
  design_ref="DESIGN.md section 8 (C14)")
CHECKS["C19"] = dict(
  category="proof",
  text="Complete decision per format: the real Date constructor is executed for each of the 48 documented formats (and formats=None), "
       "both is_extensible settings, and the language of possible matches of the emitted regex in every context is proved equal to the "
       "language generated from the format string (independent table) by regular-language inclusion in both directions - all texts. "
       "Subsets: sampled subsets decided likewise. Validation (VCs over the real Date.__init__, all strings, lists up to length 3): "
       "InvalidArgumentValueException iff some selected format is not documented, nothing else raised; Date.__date_formats proved to "
       "return exactly the 48 documented formats; and for every selection the emitted pattern IS the alternation, in order, of the "
       "selected formats' own patterns (Either chain, word-bounded unless extensible), so arbitrary subsets reduce to the 48 decided ones.",
  note="Relative to R3,R4,R6,R7, the rx2smt translator (cross-checked against re each run), z3 regex theory + derivative-product "
       "decision procedure (both must agree), specs/dates.py. Arbitrary subsets rest on Either's contract (C02).",
  technique="postcondition on the emitted pattern decided for all texts by regular-language inclusion (z3 regex theory cross-checked by a derivative-product procedure); finite parameter domain executed on the real code",
  design_ref="DESIGN.md section 8 (C19), 3.6")

COMB = ("VCs over the real bodies of every combinator method (quantifiers, concat/either/enclose/+, capture/group, anchors, "
        "look-arounds) and of every class form (template base constructors inlined, lambdas beta-reduced): for every inferred "
        "operand type, every syntactic category the class invariant allows for it (operands are placeholders of the WORST shape), "
        "every argument kind and all integers, ")
CHECKS["C02"] = dict(
  category="proof",
  text=COMB + "the emitted text parses - by CPython's own parser - to the same tree as the fully parenthesised reference, and the "
       "class form is textually the method form. No bound on operands or texts. The step 'the result again satisfies the class "
       "invariant' is the contract of __infer_type, checked by the bounded stand-in B1 (category clauses; ~270k one/two-step "
       "expressions per hash seed) and, for bracket texts (classes are atoms), decided completely by F8 (regular-language facts "
       "about the real regexes of __infer_type, derivative engine); two known findings (numeric back-reference followed by a digit; a named capture duplicated by "
       "enclose) are listed in known_findings.json.",
  note=PROOF_NOTE + " Class forms with *args: arities <= 3 over the operand kinds of KIND_TAGS['varpre'].",
  technique="contract-based deductive verification (AST->VC symbolic execution, callee contracts, z3) with parse-tree equality via CPython's parser; bounded stand-in B1 for the assumed contract of __infer_type",
  design_ref="DESIGN.md section 8 (C02), 3.5, 5")
CHECKS["C05"] = dict(
  category="proof",
  text=COMB + "the Empty clauses hold: quantifiers/Group/Capture of the empty pattern return it unchanged (same text), the empty "
       "pattern is the identity of concat/Enclose, a later empty alternative is dropped, a positive look-around on an empty "
       "assertion returns the match pattern, a negative one raises EmptyNegativeAssertionException. Holds at any depth by "
       "induction (post-conditions of each step + Inv).",
  note=PROOF_NOTE + " 'Empty type iff empty text' holds for every text (F9: read off the first two statements of __infer_type, whose form is compared each run); B1 also checks it.",
  technique="contract-based deductive verification (Empty clauses of the combinator contracts; z3)",
  design_ref="DESIGN.md section 8 (C05)")
CHECKS["C08"] = dict(
  category="proof",
  text="VCs for capture(name)/group(is_case_insensitive) over every operand type and, for group-shaped operands, every shape the "
       "invariant lists ((?:B), (?i:B), (B), (?P<N>B), lone negative look-arounds, conditionals, named back-references), all names "
       "(validity as regular-language predicates decided by a language-equivalence procedure), and for Capture/Group/Backreference/"
       "Conditional class forms: the result parses to the reference's tree - number, order and names of groups included. The same "
       "contracts are evaluated at run time on the real code over a witness pool (bounded, reported separately).",
  note=PROOF_NOTE + " R9 for (?i:...).",
  technique="contract-based deductive verification over group shapes (structural string surgery + z3), parse-tree equality via CPython's parser",
  design_ref="DESIGN.md section 8 (C08)")
CHECKS["C10"] = dict(
  category="proof",
  text="The four look-behind methods and their class forms are proved to raise NonFixedWidthPatternException iff FIXEDW(pattern) is "
       "false, where FIXEDW is re's own verdict on '(?<=pattern)' (the guard was repaired to ask re; __is_fixed_width is proved "
       "against that, with re.compile modelled by an assumed contract). That re's verdict equals 'one fixed structural width' is "
       "axiom R6, validated by the bounded stand-in B6 on generated DSL expressions with independently computed widths.",
  note=PROOF_NOTE + " R6 is an assumption about re; B6 (3000 expressions quick) only validates it.",
  technique="contract-based deductive verification (wiring to re's fixed-width verdict; z3) + bounded validation of the width axiom",
  design_ref="DESIGN.md section 8 (C10)")
CHECKS["C01"] = dict(
  category="proof",
  text="__escape is decided completely: a one-character replace is a character-wise map (E5), the side conditions are read off the "
       "AST, and __escape(c) == ESC(c) is checked on the real function for all 0x110000 code points; R1 (ESC(c) parses to the literal "
       "c) likewise exhaustive. Every public position annotated `Pregex | str` is enumerated from the source each run and must have a "
       "contract; those contracts (VCs as in C02) contain a string argument only as ESC(arg) - a raw argument reaching the text is "
       "refuted with an adversarial string. Literal operands satisfy the invariant: " + F7T + " One / two DSL steps on literals: stand-in B1 (bounded).",
  note=PROOF_NOTE + " E5 (str.replace of one character is character-wise) is assumed.",
  technique="complete finite decision of __escape over all code points + contract-based deductive verification of every str-accepting position (z3)",
  design_ref="DESIGN.md section 8 (C01), Appendix B.2")

CHECKS["C06"] = dict(
  category="exploration",
  text="Finite-exhaustive part: every zero-argument Any*/AnyBut* class and token is decided against its documented set for ALL "
       "0x110000 code points, incl. the complement law and ~A == AnyBut* (complete); AnyFrom(c) / AnyButFrom(c) emit the literal c / "
       "its negation for EVERY code point c, and the four parametrised constructors are decided for every pair of ASCII characters "
       "(complete for those arguments). Parametric constructors (AnyFrom/AnyButFrom/"
       "AnyBetween/AnyButBetween) are checked by the bounded stand-in B2: all singles and pairs (and sampled triples) of 25 "
       "distinguished characters plus 5 token instances, every ordered pair as a range, under several hash seeds, membership over "
       "~800 interesting code points. 'For any characters at all' is therefore sampled, hence exploration. Proved part (G9, VCs over "
       "all arguments): the four constructors raise exactly the documented exceptions (single character / token, start < end by code "
       "point, at least one argument) and hand '[...]' / '[^...]' with exactly the requested characters, each special one escaped, "
       "to __Class.__init__ (ghost CLASSARG); __Class.__init__, __process and its merging step __chars_to_ranges are proved to keep "
       "what the bracket text lists (verbose text), relative to the parsing / printing assumptions of the text layer "
       "(__extract_classes, __modify_classes, join of escaped items) - decided completely by F2 (data independence) and F3 "
       "(tokenisation lemma), which run here as under C07, and checked end to end by B2.",
  note="R7 about bracket expressions; specs/charsets.py written from the documentation / Unicode block definitions; Unicode surplus of "
       "\\d \\s \\w masked as the property allows.",
  technique="complete finite decision over all code points for the named classes; contracts + VCs (z3) for the parametric constructors' validation and bracket text; bounded contract check (labelled) of what the class text layer makes of that text",
  design_ref="DESIGN.md section 8 (C06), 7 (B2)")
CHECKS["C07"] = dict(
  category="proof",
  text="Interval core proved: the real nested functions reduce_ranges, reduce_chars (of __or) and subtract_ranges (of __sub) are "
       "verified against contracts over the ABSTRACT VIEW (denoted set of code points) with loop invariants over lists-as-maps - "
       "view preserved / equals V(R1) minus V(R2), well-formedness lo <= hi, chr()/index obligations - for range lists of ANY length, "
       "ALL code points and any element order (set parameters are lists in arbitrary order). The core operations __or and __sub "
       "themselves are proved over abstract item sets (their denotation): the result lists exactly the union / difference of what "
       "the operands list, EmptyClassException iff nothing is left, type-mix and global-word-character exceptions iff documented, "
       "Any absorbs; the operator methods (__or__, __ror__, __sub__, __rsub__, ~) are proved to convert single characters / tokens "
       "to singleton classes, keep the operand order and raise the documented exception otherwise; __process / __Class.__init__ / "
       "__chars_to_ranges are proved to keep what a bracket text lists. The string helpers those proofs assume are decided "
       "separately and completely: __split_range, __modify_classes, __verbose_to_shorthand by data independence over every item "
       "shape (F2, body forms compared each run), the tokenisation of __extract_classes / __separate_classes by an induction whose "
       "side conditions on the real range_pattern are decided as regular-language facts (F3). What remains assumed is that "
       "escaped items written between brackets list what they denote (R7) and the simplified (printed) form of a class, which "
       "is checked by the bounded stand-ins B2/B3 (39-class pool, "
       "all pairs, nested expressions, several hash seeds) - that part is exploration and is what a reader must discount.",
  note="E3/E6/E7 encodings; assumed contract of __split_range; R7; quantified VCs discharged by z3 (sets as predicates with "
       "triggers, equalities as two skolemised inclusions); obligations.lock marks regressions of quantified obligations.",
  technique="contract-based deductive verification with loop invariants over an abstract set view (z3, quantifiers) for the interval functions, the core operations and the operator methods; labelled bounded stand-ins for the class text layer",
  design_ref="DESIGN.md section 8 (C07), Appendix B.3")
LANGNOTE = ("Relative to R3,R4,R6,R7 about re, CPython's parser as reader of the pattern, the rx2smt translator (cross-checked "
            "against re on sampled texts each run), z3's regex theory and the derivative-product decision procedure (both back "
            "ends must agree), and the specification generators in specs/. Unicode-only digits excluded from the texts.")
CHECKS["C15"] = dict(
  category="exploration",
  text="Bounded in (start, end), complete in the text: for each pair of a stated finite set (edge values 0,1,5,9,10,11,19,20,99,100,"
       "101,109,123,199,900,999,1000 and 2^31-1, plus a digit-pattern covering: every combination of the kinds of digit pair __integer "
       "distinguishes - (0,9), start digit below / above the end digit, equal - over three positions, four in the thorough tier; "
       "thorough adds all pairs < 60 and random pairs < 10^6) the real constructor is run "
       "and the emitted regex's language of possible matches IN EVERY CONTEXT is proved equal to 'canonical numeral of [start,end], "
       "not glued to a word character' (extensible: preceded by a non-digit) by regular-language inclusion in both directions; sign "
       "variants likewise. __Integer.__integer itself (digit loop building nested look-behinds) is outside the solvers' reach for "
       "symbolic parameters, hence exploration. Argument validation IS proved (VCs over __Integer.__init__ and the four public "
       "constructors, all integers and argument kinds): InvalidArgumentTypeException iff a bound is not an int (bool excluded), "
       "InvalidArgumentValueException iff start < 0 or start > end, nothing else raised; and for ALL (start, end) the emitted pattern IS "
       "the reference sign text of the class followed by __integer(start, end, is_extensible) - only that digits pattern remains "
       "bounded in its parameters.",
  note=LANGNOTE, technique="per-parameter complete language decision of the emitted pattern (SMT regex theory + derivative-product procedure), labelled bounded in the parameters",
  design_ref="DESIGN.md section 8 (C15), 7 (B5)")
CHECKS["C16"] = dict(
  category="exploration",
  text="As C15 for Decimal / UnsignedDecimal / NegativeDecimal / PositiveDecimal (non-extensible; sign rule of PositiveInteger): per parameter tuple (ranges x fraction-length bounds x is_extensible) "
       "the emitted language in every context equals 'integer part of the corresponding Integer pattern (or none when start is 0) . "
       "min..max digits'. Argument validation proved by VCs over __Decimal.__init__ and the four public constructors (all integers "
       "and argument kinds, exceptions iff documented), and for ALL parameters the emitted pattern IS (the corresponding Integer "
       "pattern | the reference text for a missing integer part, only when start == 0) + '.' + Numeral(10, min, max) - a chain of "
       "operations under contract. Extensible PositiveDecimal / NegativeDecimal and include_sign: structure proved likewise; their "
       "language is not decided (the sign rules of the extensible forms are not documented precisely).",
  note=LANGNOTE, technique="per-parameter complete language decision of the emitted pattern, labelled bounded in the parameters",
  design_ref="DESIGN.md section 8 (C16)")
CHECKS["C17"] = dict(
  category="exploration",
  text="Per parameter tuple (all 15 bases x length bounds; Word bounds x is_global x is_extensible; affix lists incl. "
       "metacharacters) the emitted language in every context equals the documented reference language (Numeral: standalone "
       "strings of n_min..n_max digits of the base; Word: maximal runs of word characters; Word*: words containing / starting / "
       "ending with a literal affix). Argument validation proved by VCs over the five real constructors (all integers / argument "
       "kinds; affix lists up to length 2 with arbitrary contents): exceptions iff documented, nothing else raised; and for ALL "
       "bounds the emitted pattern IS the method chain AnyWordChar(g).at_least_at_most(min, max) [word-bounded] (Word), "
       "Either(affixes) enclosed by / followed by / preceded by AnyWordChar(g).indefinite() (Word*), the digit class of the base "
       "repeated n_min..n_max times (Numeral; the 15 digit classes are decided completely) - so the per-tuple language decisions "
       "are cross-checks of a statement proved for all integers, relative to C02/C04's contracts and R3.",
  note=LANGNOTE, technique="per-parameter complete language decision of the emitted pattern against a reference language, labelled bounded in the parameters",
  design_ref="DESIGN.md section 8 (C17)")

CHECKS["C03"] = dict(
  category="proof",
  text="VCs over every function under contract (combinators, class forms, matching API, class constructors / operators / core "
       "operations, meta constructors - 122 functions): every implicit-exception exit (TypeError, "
       "IndexError, KeyError, AttributeError, ValueError ...) is proved infeasible and every raise is of a documented library class "
       "under exactly the documented condition, over the enumerated tagged-argument domain (wrong type, bool for int, None, float, "
       "negative, inverted, bad name, too few arguments) and all integers; emitted texts parse whenever the operands' do. Complete "
       "finite part: every meta constructor over its flag domain constructs, compiles and exports. Bounded parts (reported "
       "separately): B1 validity/termination of type inference on emitted texts, B4 get_pattern round trip, B2 class text under hash "
       "seeds. Two known findings (see known_findings.json).",
  note=PROOF_NOTE + " Class-layer functions (classes.py) are covered by bounded stand-ins only; repetition bounds >= MAXREPEAT outside the model.",
  technique="contract-based deductive verification (implicit-exception and raises-iff obligations, z3) + finite construction/compile sweep + labelled bounded stand-ins",
  design_ref="DESIGN.md section 8 (C03)")
CHECKS["C20"] = dict(
  category="proof",
  text="Frame scan over the whole package on every run (every attribute store, setattr, global, mutating call on a field, store into a "
       "class-level table is enumerated and must be one of: the constructors' own fields, the compiled-pattern cache in compile()/"
       "get_compiled_pattern()); frame clauses of the contracts proved by the VC driver (no method writes a field of self or of an "
       "operand outside its frame); the cache invariant (C11) makes the cache unobservable; results are functions of operand fields "
       "only. Hash-seed independence where python sets are iterated (the class algebra): __or, __sub and their nested interval "
       "functions are proved for an ARBITRARY enumeration of every set they iterate, so the denoted set of the result does not "
       "depend on the seed. Random histories over shared operands are exercised by the bounded stand-in B20.",
  note=PROOF_NOTE + " Equality of class TEXT across hash seeds is not claimed (the denoted sets are equal; text layer: B2/B3).",
  technique="syntactic frame scan of the real source + frame obligations of the contract-based VCs (z3); bounded history stand-in",
  design_ref="DESIGN.md section 8 (C20)")

NOT_APPLICABLE = {p: PENDING for p in ["C%02d" % i for i in range(1, 21)] if p not in CHECKS}

