"""Per-property claims (edited by hand as the machinery grows); tools/mkmanifest.py turns this into MANIFEST.json."""
HOOK_COMMITS = []

PENDING = "check not built yet in this revision of /verif (work in progress; see DESIGN.md section 8 for the plan)"

CHECKS = {
 "C18": dict(
  category="proof",
  text="Complete decision: IPv4()/IPv6() are executed for their whole parameter domain (is_extensible True/False) and the "
       "language of possible matches of each emitted regex, in every context, is proved equal to (extensible) or sandwiched "
       "around (non-extensible: never glued to digit/dot/colon, always matched between non-word neighbours) the standard's "
       "grammar by regular-language inclusion in z3/cvc5 - for all texts, no bound.",
  note="Relative to axioms R3,R4,R6,R7 about re, CPython's parser as reader of the pattern, the rx2smt translator "
       "(cross-checked against re on sampled texts each run), the solvers' regex theory and specs/ipaddr.py (validated "
       "against ipaddress). Unicode-only digits are excluded from the texts (left unspecified by the property).",
  technique="postcondition on the emitted pattern decided for all texts by SMT regex-theory language inclusion (finite parameter domain executed on the real code)",
  design_ref="DESIGN.md section 8 (C18), 3.6"),
}

NOT_APPLICABLE = {p: PENDING for p in ["C%02d" % i for i in range(1, 21)] if p not in CHECKS}
