#!/usr/bin/env python3
"""Regenerates /verif/MANIFEST.json from the table below (single source of truth) and validates it."""
import json, os, sys
HERE = os.path.dirname(os.path.dirname(os.path.abspath(__file__)))
sys.path.insert(0, HERE)
from tools.manifest_table import CHECKS, NOT_APPLICABLE, HOOK_COMMITS

props = [json.loads(l)["id"] for l in open(os.path.join(HERE, "properties.jsonl"))]
checks = []
for pid in props:
    if pid not in CHECKS:
        continue
    c = CHECKS[pid]
    checks.append({
        "property_id": pid,
        "quick_cmd": f"python3-vt -m pvc.cli check {pid} --tier quick",
        "thorough_cmd": f"python3-vt -m pvc.cli check {pid} --tier thorough",
        "evidence_file": f"evidence/{pid}.json",
        "replay_cmd_template": "/venv/bin/python /verif/pvc/replay.py {path}",
        "engine": "pvc",
        "level_claimed": {"category": c["category"], "text": c["text"], "design_ref": c.get("design_ref", "DESIGN.md section 8")},
        "level_note": c["note"],
        "technique": c["technique"],
    })
na = [{"property_id": p, "reason": NOT_APPLICABLE[p]} for p in props if p not in CHECKS]
m = {
    "version": 1,
    "setup_cmd": "python3-vt tools/setup_check.py",
    "hooks": {
        "guard": "PREGEX_VERIF",
        "enable": "no hooks are needed: the checks read /repo/src with ast and import the unmodified package (PYTHONPATH=/repo/src) under /venv/bin/python",
        "baseline_off_cmd": "cd /repo && /venv/bin/python -m pytest -q -p no:cacheprovider",
        "source_commits": HOOK_COMMITS,
        "add_only": True,
    },
    "engines": [{
        "name": "pvc", "path": "pvc/",
        "serves_properties": [c["property_id"] for c in checks],
        "kind_free_text": "contract-based deductive verification: sidecar contracts on the real functions, VCs generated "
                          "from the ast of /repo/src on every run and discharged by z3 5.1 / z3 4.8 / cvc5 1.0; complete "
                          "regular-language decisions of postconditions about concrete emitted patterns; bounded "
                          "stand-ins (labelled) where a function is out of the solvers' reach",
    }],
    "checks": checks,
    "not_applicable": na,
    "notes": "See DESIGN.md. Exit codes: 0 held, 1 VIOLATION lines, 2 undecided obligation (never a verdict), 3 checker limitation.",
}
json.dump(m, open(os.path.join(HERE, "MANIFEST.json"), "w"), indent=1)
try:
    import jsonschema
    jsonschema.validate(m, json.load(open("/root/.vp/MANIFEST.schema.json")))
    print("MANIFEST.json valid;", len(checks), "checks,", len(na), "not_applicable")
except ImportError:
    print("jsonschema not importable here; written without validation")
