#!/bin/bash
# usage: tools/seedrun.sh <seeded-name> <PROP> [tier]   -- applies /verif/seeded/<name>/patch.diff to /repo, runs the check, undoes it
NAME=$1; PROP=$2; TIER=${3:-quick}
cd /repo && git diff --quiet || { echo "/repo has uncommitted changes; refusing"; exit 2; }
git -C /repo apply /verif/seeded/$NAME/patch.diff || { echo "patch does not apply"; exit 2; }
cd /verif && PVC_EVIDENCE_DIR=/tmp/pvc_seed_evidence python3-vt -m pvc.cli check $PROP --tier $TIER > /tmp/seedrun_$NAME_$PROP.out 2>&1; RC=$?
git -C /repo checkout -- .
NV=$(grep -c '^VIOLATION' /tmp/seedrun_$NAME_$PROP.out)
echo "seed=$NAME check=$PROP rc=$RC violations=$NV"
grep -A2 '^VIOLATION' /tmp/seedrun_$NAME_$PROP.out | head -${SHOW:-8} | cut -c1-400
grep 'CHECKER-ERROR' /tmp/seedrun_$NAME_$PROP.out | head -3
rm -rf /tmp/pvc_seed_evidence /tmp/seedrun_$NAME_$PROP.out
