#!/usr/bin/env python3
"""Regenerates /verif/obligations.lock: for every function under contract, the hash of its current source in /repo and the
number of obligations the verifier discharged for it.  Committed; never written by the checks.  An obligation that is
`unknown` for a function whose source differs from the locked one is reported as a regression (DESIGN section 9)."""
import json, os, sys
V = os.path.dirname(os.path.dirname(os.path.abspath(__file__)))
sys.path.insert(0, V)
from pvc import vcrun
from pvc.common import Report
import contracts

qs = [q for q, c in contracts.ALL.items() if not q.startswith("new:") and not c.get("inline") and not c.get("assumed") and not c.get("bounded_only")]
rep = Report("LOCK", "quick", "proof")
os.environ["PVC_EVIDENCE_DIR"] = "/tmp/pvc_lock_ev"
res = vcrun.run_functions(rep, qs, "quick", monitor=False, use_lock=False)
lock = {}
for r in res:
    ok = all(o["status"] == "discharged" for o in r["obligations"]) and not r["limitation"]
    lock[r["qualname"]] = {"source_hash": r["source_hash"], "obligations": len(r["obligations"]), "all_discharged": ok,
                           "limitation": r["limitation"]}
json.dump(lock, open(os.path.join(V, "obligations.lock"), "w"), indent=1, sort_keys=True)
for r in res:
    for o in r["obligations"]:
        if o["status"] != "discharged":
            print("  not discharged:", o["name"][-140:], "|", o["status"], o["backend"][:80], round(o["time_s"], 1))
bad = [q for q, v in lock.items() if not v["all_discharged"]]
print(len(lock), "functions locked;", len(bad), "not fully discharged:", bad)
