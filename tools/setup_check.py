#!/usr/bin/env python3
"""MANIFEST.setup_cmd: nothing is built or fetched; verify that the tools the checks need are present."""
import shutil, subprocess, sys, os
ok = True
for tool in ["z3-new", "/usr/bin/z3", "/usr/bin/cvc5", "/venv/bin/python", "python3-vt"]:
    p = shutil.which(tool) or (tool if os.path.exists(tool) else None)
    print(("ok   " if p else "MISSING ") + tool)
    ok = ok and bool(p)
try:
    import z3
    print("ok   z3 python", z3.get_version_string())
except Exception as e:
    print("MISSING z3 python bindings", e); ok = False
r = subprocess.run(["/venv/bin/python", "-W", "ignore", "-c", "import pregex.core.pre, pregex.meta.essentials; print('ok   pregex importable under /venv')"],
                   env={**os.environ, "PYTHONPATH": os.environ.get("PVC_REPO", "/repo") + "/src"}, capture_output=True, text=True)
print(r.stdout.strip() or r.stderr.strip()[-300:]); ok = ok and r.returncode == 0
os.makedirs(os.path.join(os.path.dirname(os.path.dirname(os.path.abspath(__file__))), "evidence"), exist_ok=True)
sys.exit(0 if ok else 1)
