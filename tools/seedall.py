#!/usr/bin/env python3
"""Runs every kept seeded change (/verif/seeded/<name>/patch.diff) against the check of the property it breaks, on a
scratch worktree of /repo (PVC_REPO), and prints a table.   python3 tools/seedall.py [name ...] [--also C03]"""
import json, os, subprocess, sys, shutil
V = os.path.dirname(os.path.dirname(os.path.abspath(__file__)))
WT = f"/tmp/pvc_seedall_wt_{os.getpid()}"


def sh(c):
    return subprocess.run(c, shell=True, capture_output=True, text=True)


def main():
    names = [a for a in sys.argv[1:] if not a.startswith("--")] or \
        sorted(n for n in os.listdir(os.path.join(V, "seeded")) if os.path.isdir(os.path.join(V, "seeded", n)))
    rows = []
    for n in names:
        d = os.path.join(V, "seeded", n)
        meta = json.load(open(os.path.join(d, "meta.json")))
        prop = meta["property"]
        sh(f"git -C /repo worktree remove --force {WT}; git -C /repo worktree prune; git -C /repo worktree add --detach {WT} HEAD")
        a = sh(f"git -C {WT} apply {d}/patch.diff")
        if a.returncode:
            rows.append((n, prop, "PATCH DOES NOT APPLY", ""))
            continue
        env = dict(os.environ, PVC_REPO=WT, PVC_EVIDENCE_DIR="/tmp/pvc_seedall_ev")
        c = subprocess.run(["python3-vt", "-m", "pvc.cli", "check", prop, "--tier", "quick"], cwd=V, capture_output=True, text=True, env=env)
        viol = [l for l in c.stdout.splitlines() if l.startswith("VIOLATION")]
        obl = [l.strip()[12:] for l in c.stdout.splitlines() if l.startswith("  obligation:")]
        noinput = sum("no-failing-input-found" in l for l in viol)
        rows.append((n, prop, f"rc={c.returncode} violations={len(viol)} (without input: {noinput})", "; ".join(sorted(set(o[:90] for o in obl))[:3])))
        print(rows[-1], flush=True)
    sh(f"git -C /repo worktree remove --force {WT}; git -C /repo worktree prune")
    shutil.rmtree("/tmp/pvc_seedall_ev", ignore_errors=True)
    rp = os.path.join(V, "seeded", "RESULTS.json")
    try:
        old = {r[0]: r for r in json.load(open(rp))}
    except Exception:
        old = {}
    for r in rows:
        old[r[0]] = list(r)
    json.dump([old[k] for k in sorted(old)], open(rp, "w"), indent=1)


if __name__ == "__main__":
    main()
