#!/bin/bash
# usage: tools/seed_verify.sh <ID> <dir with patch.diff demo_*.py meta.json> [name]
# Confirms a seeded change independently in a fresh scratch worktree of /repo HEAD:
#   patch applies; suite passes with it; demo fails with it and passes without it.  Then stores it as /verif/seeded/<name>/
set -u
ID=$1; SRC=$2; NAME=${3:-$ID}
WT=/tmp/sv_$NAME
rm -rf $WT; git -C /repo worktree prune
git -C /repo worktree add --detach $WT HEAD -q || exit 2
DEMO=$(ls $SRC/demo_*.py | head -1)
run() { (cd $WT && PYTHONPATH=$WT/src /venv/bin/python -W ignore "$@"); }
run $DEMO > /tmp/sv_$NAME.pristine.out 2>&1; P=$?
git -C $WT apply $SRC/patch.diff || { echo "PATCH DOES NOT APPLY"; git -C /repo worktree remove --force $WT; exit 2; }
run $DEMO > /tmp/sv_$NAME.mutated.out 2>&1; M=$?
T=$(run -m pytest -q -p no:cacheprovider 2>&1 | tail -1)
echo "$NAME: demo pristine rc=$P mutated rc=$M tests: $T"
git -C /repo worktree remove --force $WT
if [ $P -eq 0 ] && [ $M -ne 0 ] && echo "$T" | grep -q "689 passed"; then
  mkdir -p /verif/seeded/$NAME
  cp $SRC/patch.diff /verif/seeded/$NAME/patch.diff
  cp $DEMO /verif/seeded/$NAME/demo.py
  python3 - "$SRC/meta.json" "/verif/seeded/$NAME/meta.json" "$ID" "$P" "$M" "$T" <<'PY'
import json, sys
src, dst, pid, p, m, t = sys.argv[1:]
try: meta = json.load(open(src))
except Exception: meta = {}
meta["property"] = pid
meta["confirmed_by_me"] = {"base": "/repo HEAD at confirmation time", "demo_rc_pristine": int(p), "demo_rc_with_patch": int(m),
                           "test_suite_with_patch": t.strip(), "how": "tools/seed_verify.sh in a fresh scratch worktree"}
json.dump(meta, open(dst, "w"), indent=1)
PY
  echo "  kept as /verif/seeded/$NAME"
else
  echo "  NOT kept"
fi
rm -f /tmp/sv_$NAME.*.out
