"""Documented character sets of the named classes and tokens, written from the documentation (docstrings / docs) and the
Unicode block definitions they cite - not from the code.  Each entry is (lower, upper): every character of `lower` must be
matched, no character outside `upper` may be matched; where the documentation pins the set exactly, lower == upper."""
import string


def R(*pairs):
    out = []
    for p in pairs:
        if isinstance(p, str):
            out.extend((ord(c), ord(c)) for c in p)
        else:
            out.append((p[0], p[1]))
    return out


LATIN_UP, LATIN_LO = R((0x41, 0x5A)), R((0x61, 0x7A))
DIGITS = R((0x30, 0x39))
GREEK_CORE = R("ΑΒΓΔΕΖΗΘΙΚΛΜΝΞΟΠΡΣΤΥΦΧΨΩαβγδεζηθικλμνξοπρσςτυφχψωάέήίόύώΆΈΉΊΌΎΏϊϋΐΰΪΫ")
CYRILLIC_CORE = R((0x410, 0x44F), "Ёё")

NAMED = {
    # class name: (lower, upper, masked)  masked = which Unicode-aware shorthand surplus is left unspecified
    "Any": (R((0, 0x10FFFF)), R((0, 0x10FFFF)), ""),
    "AnyLetter": (LATIN_UP + LATIN_LO,) * 2 + ("",),
    "AnyLowercaseLetter": (LATIN_LO,) * 2 + ("",),
    "AnyUppercaseLetter": (LATIN_UP,) * 2 + ("",),
    "AnyDigit": (DIGITS,) * 2 + ("d",),
    "AnyWordChar": (LATIN_UP + LATIN_LO + DIGITS + R("_"),) * 2 + ("dw",),
    "AnyPunctuation": (R(string.punctuation),) * 2 + ("",),
    "AnyWhitespace": (R(" \t\n\r\x0b\x0c"),) * 2 + ("s",),
    "AnyGermanLetter": (LATIN_UP + LATIN_LO + R("äöüßÄÖÜẞ"),) * 2 + ("",),
    "AnyGreekLetter": (GREEK_CORE, R((0x370, 0x3FF)), ""),
    "AnyCyrillicLetter": (CYRILLIC_CORE, R((0x400, 0x4FF)), ""),
    "AnyCJK": (R((0x4E00, 0x9FD5)), R((0x4E00, 0x9FFF)), ""),
    "AnyHebrewLetter": (R((0x590, 0x5FF)),) * 2 + ("",),
    "AnyKoreanLetter": (R((0x3131, 0x314E), (0xAC00, 0xD7A3)), R((0x3130, 0x318F), (0xAC00, 0xD7AF)), ""),
}
COMPLEMENT = {
    "AnyButLetter": "AnyLetter", "AnyButLowercaseLetter": "AnyLowercaseLetter", "AnyButUppercaseLetter": "AnyUppercaseLetter",
    "AnyButDigit": "AnyDigit", "AnyButWordChar": "AnyWordChar", "AnyButPunctuation": "AnyPunctuation",
    "AnyButWhitespace": "AnyWhitespace", "AnyButGermanLetter": "AnyGermanLetter", "AnyButGreekLetter": "AnyGreekLetter",
    "AnyButCyrillicLetter": "AnyCyrillicLetter", "AnyButCJK": "AnyCJK", "AnyButHebrewLetter": "AnyHebrewLetter",
    "AnyButKoreanLetter": "AnyKoreanLetter",
}
TOKENS = {
    "Backslash": "\\", "Bullet": "•", "CarriageReturn": "\r", "Copyright": "©", "Division": "÷", "Dollar": "$",
    "Euro": "€", "FormFeed": "\x0c", "Infinity": "∞", "Multiplication": "×", "Newline": "\n", "Pound": "£",
    "Registered": "®", "Rupee": "₹", "Space": " ", "Tab": "\t", "Trademark": "™", "VerticalTab": "\x0b",
    "WhiteBullet": "◦", "Yen": "¥",
}
