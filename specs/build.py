"""Tiny combinators that build spec languages as rx2smt regex ASTs (plain regular expressions over code points)."""
from pvc import rx2smt as R


class B:
    def __init__(self, universe):
        self.U = universe

    def chars(self, s):
        """one character out of the string s"""
        return R.cs(R.cs_inter(R.cs_of(s), self.U))

    def rng(self, *pairs):
        """one character out of the given inclusive ranges, e.g. rng('09','af','AF')"""
        return R.cs(R.cs_inter(R.cs_norm([(ord(p[0]), ord(p[1])) for p in pairs]), self.U))

    def set(self, charset):
        return R.cs(R.cs_inter(charset, self.U))

    def notset(self, charset):
        return R.cs(R.cs_minus(self.U, charset))

    def lit(self, s):
        return R.cat(*[self.chars(c) for c in s])

    def seq(self, *rs):
        return R.cat(*rs)

    def alt(self, *rs):
        return R.alt(*rs)

    def rep(self, r, lo, hi):
        return R.loop(r, lo, hi)

    def opt(self, r):
        return R.opt(r)

    @property
    def any_star(self):
        return R.star(R.cs(self.U))

    def not_ending_in(self, charset):
        """all texts (possibly empty) whose last character is not in charset"""
        return R.alt(R.EPS, R.cat(self.any_star, self.notset(charset)))

    def not_starting_with(self, charset):
        return R.alt(R.EPS, R.cat(self.notset(charset), self.any_star))

    def ending_in(self, charset):
        return R.cat(self.any_star, self.set(charset))

    def starting_with(self, charset):
        return R.cat(self.set(charset), self.any_star)
