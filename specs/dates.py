"""The 48 documented Date formats and the language each denotes, written from the documentation:
orders D-M-Y, M-D-Y, Y-M-D; D in {d, dd}; M in {m, mm}; Y in {yy, yyyy}; separator '/' or '-';
d = 1-9, dd = 01-31, m = 1-9, mm = 01-12, yy = two digits, yyyy = four digits."""
import itertools


def documented_formats():
    out = []
    for D, M, Y in itertools.product(("d", "dd"), ("m", "mm"), ("yy", "yyyy")):
        for order in ((D, M, Y), (M, D, Y), (Y, M, D)):
            for sep in ("/", "-"):
                out.append(sep.join(order))
    return out


def part(b, code):
    d = b.rng('09')
    nz = b.rng('19')
    if code in ("d", "m"):
        return nz
    if code == "dd":
        return b.alt(b.seq(b.lit('0'), nz), b.seq(b.rng('12'), d), b.seq(b.lit('3'), b.rng('01')))
    if code == "mm":
        return b.alt(b.seq(b.lit('0'), nz), b.seq(b.lit('1'), b.rng('02')))
    if code == "yy":
        return b.rep(d, 2, 2)
    if code == "yyyy":
        return b.rep(d, 4, 4)
    raise ValueError(code)


def language(b, fmt):
    sep = "/" if "/" in fmt else "-"
    codes = fmt.split(sep)
    parts = []
    for i, c in enumerate(codes):
        if i:
            parts.append(b.lit(sep))
        parts.append(part(b, c))
    return b.seq(*parts)
