"""Canonical decimal numerals of an integer range as a regular language, generated independently of pregex:
numerals without leading zeros ("0" itself allowed) whose value v satisfies lo <= v <= hi."""


def fixed_len_range(b, a, z):
    """strings of len(a) == len(z) digits between a and z (as digit strings, leading zeros allowed here)"""
    assert len(a) == len(z) and a <= z
    if a == z:
        return b.lit(a)
    if len(a) == 1:
        return b.rng(a + z)
    if a[0] == z[0]:
        return b.seq(b.lit(a[0]), fixed_len_range(b, a[1:], z[1:]))
    k = len(a) - 1
    alts = []
    lo_full = a[1:] == "0" * k
    hi_full = z[1:] == "9" * k
    first_lo = int(a[0]) + (0 if lo_full else 1)
    first_hi = int(z[0]) - (0 if hi_full else 1)
    if not lo_full:
        alts.append(b.seq(b.lit(a[0]), fixed_len_range(b, a[1:], "9" * k)))
    if first_lo <= first_hi:
        alts.append(b.seq(b.rng(str(first_lo) + str(first_hi)), b.rep(b.rng("09"), k, k)))
    if not hi_full:
        alts.append(b.seq(b.lit(z[0]), fixed_len_range(b, "0" * k, z[1:])))
    return b.alt(*alts)


def canonical(b, lo, hi):
    assert 0 <= lo <= hi
    alts = []
    for d in range(len(str(lo)), len(str(hi)) + 1):
        a = max(lo, 0 if d == 1 else 10 ** (d - 1))
        z = min(hi, 10 ** d - 1)
        if a <= z:
            alts.append(fixed_len_range(b, str(a), str(z)))
    return b.alt(*alts)


def self_test():
    """brute-force validation of the generator (python's re on the rendered regex)"""
    import re, random
    from pvc import rx2smt as R

    class PB:
        def lit(self, s): return re.escape(s)
        def rng(self, p): return "[%s-%s]" % (p[0], p[1])
        def seq(self, *x): return "".join(x)
        def alt(self, *x): return "(?:" + "|".join(x) + ")"
        def rep(self, r, lo, hi): return "(?:%s){%d,%d}" % (r, lo, hi)
    pb = PB()
    rnd = random.Random(5)
    pairs = [(a, z) for a in range(0, 40) for z in range(a, 40)] + [tuple(sorted((rnd.randint(0, 3000), rnd.randint(0, 3000)))) for _ in range(300)]
    for lo, hi in pairs:
        rx = re.compile(canonical(pb, lo, hi))
        for v in list(range(0, min(hi + 30, 3100))) + ["00", "01", "007", "0012"]:
            s = str(v)
            want = s.isdigit() and (s == "0" or s[0] != "0") and lo <= int(s) <= hi
            if bool(rx.fullmatch(s)) != want:
                raise AssertionError(f"canonical({lo},{hi}) wrong on {s!r}")
    return len(pairs)
