"""IPv4 dotted-quad and RFC 4291 section 2.2 (forms 1 and 2: hexadecimal groups, one optional '::') as languages.
Written from the standard, not from pregex: the IPv6 language is the union over (l, r), l + r <= 7, of
'l groups :: r groups', plus the full eight-group form."""


def ipv4(b):
    d = b.rng('09')
    octet = b.alt(d, b.seq(b.rng('19'), d), b.seq(b.lit('1'), d, d), b.seq(b.lit('2'), b.rng('04'), d),
                  b.seq(b.lit('25'), b.rng('05')))
    return b.seq(octet, b.rep(b.seq(b.lit('.'), octet), 3, 3))


def ipv6(b):
    h = b.rep(b.rng('09', 'af', 'AF'), 1, 4)

    def groups(k):
        if k == 0:
            return b.seq()
        return b.seq(h, b.rep(b.seq(b.lit(':'), h), k - 1, k - 1))

    alts = [groups(8)]
    for l in range(0, 8):
        for r in range(0, 8 - l):
            alts.append(b.seq(groups(l), b.lit('::'), groups(r)))
    return b.alt(*alts)
