"""Specification tables written from the documentation / the standards, not from the code."""
