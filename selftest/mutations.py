"""Property-breaking and harmless edits for the self-test (see run.py).  File paths are relative to the repo root.
kind 'break': the named checks must report a VIOLATION; kind 'harmless': the named checks must NOT (exit 0, no VIOLATION)."""
PRE = "src/pregex/core/pre.py"
CLS = "src/pregex/core/classes.py"
ESS = "src/pregex/meta/essentials.py"
QNT = "src/pregex/core/quantifiers.py"
OPS = "src/pregex/core/operators.py"
ASR = "src/pregex/core/assertions.py"

MUTATIONS = [
 # ---- quantifier lattice (C04, C09) ------------------------------------------------------------------------------
 dict(id="q-lazy-dropped-at-least", kind="break", props=["C04"], file=PRE,
      old='''f"{self._quantify_conditional_group()}{{{n},}}{'' if is_greedy else '?'}"''',
      new='''f"{self._quantify_conditional_group()}{{{n},}}"'''),
 dict(id="q-at-least-becomes-exact", kind="break", props=["C04"], file=PRE,
      old='''{{{n},}}{'' if is_greedy else '?'}''', new='''{{{n}}}{'' if is_greedy else '?'}'''),
 dict(id="q-group-rule-other", kind="break", props=["C04", "C02"], file=PRE,
      old="_Type.Other: (False, True, False),", new="_Type.Other: (False, False, False),"),
 dict(id="q-group-rule-alternation-concat", kind="break", props=["C02"], file=PRE,
      old="_Type.Alternation: (True, True, True),", new="_Type.Alternation: (False, True, True),"),
 dict(id="q-at-most-one-is-two", kind="break", props=["C04"], file=PRE,
      old='''        elif n == 1:
            return self.optional(is_greedy)''', new='''        elif n == 2:
            return self.optional(is_greedy)'''),
 dict(id="q-alam-delegation-drops-greedy", kind="break", props=["C04"], file=PRE,
      old="            return self.at_most(m, is_greedy)", new="            return self.at_most(m)"),
 dict(id="q-alam-m-less-than-n-off-by-one", kind="break", props=["C04"], file=PRE,
      old="        elif m < n:\n            message = \"The value of parameter \\\"m\\\" can't be\"",
      new="        elif m < n - 1:\n            message = \"The value of parameter \\\"m\\\" can't be\""),
 dict(id="q-indefinite-ignores-repeatable", kind="break", props=["C09", "C04"], file=PRE,
      old='''        if not self._is_repeatable():
            raise _ex.CannotBeRepeatedException(self)
        return __class__(
            f"{self._quantify_conditional_group()}*{'' if is_greedy else '?'}",''',
      new='''        return __class__(
            f"{self._quantify_conditional_group()}*{'' if is_greedy else '?'}",'''),
 dict(id="h-at-most-zero-spelling", kind="harmless", props=["C04"], file=PRE,
      old='''{{,{n}}}{'' if is_greedy else '?'}''', new='''{{0,{n}}}{'' if is_greedy else '?'}'''),
 dict(id="h-indefinite-spelling", kind="harmless", props=["C04", "C09"], file=PRE,
      old='''f"{self._quantify_conditional_group()}*{'' if is_greedy else '?'}"''',
      new='''f"{self._quantify_conditional_group()}{{0,}}{'' if is_greedy else '?'}"'''),
 dict(id="h-optional-spelling", kind="harmless", props=["C04", "C05"], file=PRE,
      old='''f"{self._quantify_conditional_group()}?{'' if is_greedy else '?'}"''',
      new='''f"{self._quantify_conditional_group()}{{0,1}}{'' if is_greedy else '?'}"'''),
 dict(id="h-exactly-returns-copy", kind="harmless", props=["C04", "C05", "C20"], file=PRE,
      old='''        if n == 1:
            return self
        else:
            if n < 0:
                message = "Parameter \\"n\\" can't be negative."''',
      new='''        if n == 1:
            return __class__(str(self), escape=False)
        else:
            if n < 0:
                message = "Parameter \\"n\\" can't be negative."'''),
 # ---- operators / empty laws / literal strings (C01, C02, C05) ---------------------------------------------------
 dict(id="o-concat-left-order", kind="break", props=["C02"], file=PRE,
      old="        pattern = pattern + pre if on_right else pre + pattern", new="        pattern = pattern + pre"),
 dict(id="o-either-keeps-empty", kind="break", props=["C05"], file=PRE,
      old='''        if pre._get_type() == _Type.Empty:
            pattern = str(self)
        else:
            pattern = f"{self}|{pre}" if on_right else f"{pre}|{self}"''',
      new='''        pattern = f"{self}|{pre}" if on_right else f"{pre}|{self}"'''),
 dict(id="o-escape-misses-pipe", kind="break", props=["C01"], file=PRE,
      old="'.', '|', '/'}", new="'.', '/'}"),
 dict(id="o-to-pregex-no-escape", kind="break", props=["C01", "C02"], file=PRE,
      old="            return Pregex(pre, escape=True)", new="            return Pregex(pre, escape=len(pre) < 3)"),
 dict(id="h-escape-extra-harmless-char", kind="harmless", props=["C01"], file=PRE,
      old="        for c in {'^', '$',", new="        for c in ('^', '$',") if False else
 dict(id="h-concat-rename-local", kind="harmless", props=["C02", "C05"], file=PRE,
      old='''        pattern = self._concat_conditional_group()
        pre = pre._concat_conditional_group()

        pattern = pattern + pre if on_right else pre + pattern

        return __class__(pattern, escape=False)''',
      new='''        mine = self._concat_conditional_group()
        other = pre._concat_conditional_group()

        text = (mine + other) if on_right else (other + mine)

        return __class__(text, escape=False)'''),
 # ---- groups (C08) -----------------------------------------------------------------------------------------------
 # '((?:b))' for '(b)': one capturing group, same spans and groups - C08 is semantic, so this edit is harmless for it
 dict(id="g-capture-nc-keeps-colon", kind="harmless", props=["C08"], file=PRE,
      old="                pattern = self.__pattern.replace('?:', '', 1)", new="                pattern = '(' + self.__pattern + ')'"),
 dict(id="g-capture-nc-strips-every-colon", kind="break", props=["C08"], file=PRE,
      old="                pattern = self.__pattern.replace('?:', '', 1)", new="                pattern = self.__pattern.replace('?:', '')"),
 dict(id="g-sub-count-removed", kind="break", props=["C08"], file=PRE,
      old='''f'(?P<{name}>', pattern, count=1)''', new='''f'(?P<{name}>', pattern)'''),
 # ---- assertions (C10, C05) --------------------------------------------------------------------------------------
 dict(id="a-not-followed-by-empty-returns-self", kind="break", props=["C05"], file=PRE,
      old='''        if pre._get_type() == _Type.Empty:
            raise _ex.EmptyNegativeAssertionException()
        pattern = f"{self._assert_conditional_group()}(?!{pre})"''',
      new='''        if pre._get_type() == _Type.Empty:
            return self
        pattern = f"{self._assert_conditional_group()}(?!{pre})"'''),
 dict(id="a-enclosed-by-width-unchecked", kind="break", props=["C10"], file=PRE,
      old='''        if not __class__.__is_fixed_width(str(pre)):
            raise _ex.NonFixedWidthPatternException(pre)
        return __class__(
            f"(?<={pre}){self._assert_conditional_group()}(?={pre})",''',
      new='''        return __class__(
            f"(?<={pre}){self._assert_conditional_group()}(?={pre})",'''),
 # ---- matching API (C11-C14) -------------------------------------------------------------------------------------
 dict(id="m-compiled-flags-dropped", kind="break", props=["C11"], file=PRE,
      old="        self.__compiled = _re.compile(self.get_pattern(), flags=self.__flags)",
      new="        self.__compiled = _re.compile(self.get_pattern(), flags=_re.MULTILINE)"),
 dict(id="m-is-exact-match-uses-match", kind="break", props=["C11"], file=PRE,
      old="        return bool(_re.fullmatch(self.__pattern, source, flags=self.__flags) \\",
      new="        return bool(_re.match(self.__pattern, source, flags=self.__flags) \\"),
 dict(id="m-relative-offset-uses-end", kind="break", props=["C12"], file=PRE,
      old="                        start, end = start - match.start(0), end - match.start(0)\n                    groups.append((group, start, end))",
      new="                        start, end = start - match.start(0), end - match.end(0)\n                    groups.append((group, start, end))"),
 dict(id="m-split-index-start", kind="break", props=["C13"], file=PRE,
      old="            split_list.append(source[index:start])\n            index = end\n        split_list.append(source[index:])\n        return split_list\n\n\n    def split_by_capture",
      new="            split_list.append(source[index:start])\n            index = start\n        split_list.append(source[index:])\n        return split_list\n\n\n    def split_by_capture"),
 dict(id="m-window-left-floor-one", kind="break", props=["C14"], file=PRE,
      old="source[max(start - n_left, 0):", new="source[max(start - n_left, 1):"),
 dict(id="m-replace-count-allows-negative", kind="break", props=["C13"], file=PRE,
      old="        if count < 0:\n            message = \"Parameter \\\"count\\\" can't be negative.\"",
      new="        if count < -1:\n            message = \"Parameter \\\"count\\\" can't be negative.\""),
 dict(id="h-get-compiled-discard-inverted-default-kept", kind="harmless", props=["C11", "C20"], file=PRE,
      old='''        if self.__compiled is None:
            self.compile()
        compiled = self.__compiled''',
      new='''        if self.__compiled is None:
            self.compile()
        compiled = self.__compiled
        compiled = compiled'''),
 # ---- classes (C06, C07) -----------------------------------------------------------------------------------------
 dict(id="c-reduce-ranges-gap", kind="break", props=["C07"], file=CLS,
      old="ord(end_i) + 1 >= ord(start_j)", new="ord(end_i) + 2 >= ord(start_j)"),
 dict(id="c-reduce-chars-right-neighbour", kind="break", props=["C07"], file=CLS,
      old="                    elif ord(end) == ord(chars[i]) - 1:", new="                    elif ord(end) == ord(chars[i]) - 2:"),
 dict(id="c-subtract-right-piece-off", kind="break", props=["C07"], file=CLS,
      old="split_rng.append((chr(ord(end_2) + 1), end_1))", new="split_rng.append((chr(ord(end_2) + 2), end_1))"),
 dict(id="c-anybetween-allows-equal", kind="break", props=["C06"], file=CLS,
      old="        if ord(start) >= ord(end):\n            raise _ex.InvalidRangeException(start, end)\n        start = f\"\\\\{start}\" if start in __class__._to_escape else start\n        end = f\"\\\\{end}\" if end in __class__._to_escape else end\n        super().__init__(f\"[{start}-{end}]\", is_negated=False)",
      new="        if ord(start) > ord(end):\n            raise _ex.InvalidRangeException(start, end)\n        start = f\"\\\\{start}\" if start in __class__._to_escape else start\n        end = f\"\\\\{end}\" if end in __class__._to_escape else end\n        super().__init__(f\"[{start}-{end}]\", is_negated=False)"),
 dict(id="c-to-escape-misses-caret", kind="break", props=["C06"], file=CLS,
      old="""_to_escape = ('\\\\', '^', '[', ']', '-', '/')""", new="""_to_escape = ('\\\\', '[', ']', '-', '/')"""),
 dict(id="h-reduce-ranges-rename", kind="harmless", props=["C07"], file=CLS,
      old="                start_i, end_i = ranges[i]\n                j = 0", new="                start_i, end_i = ranges[i]\n                j = 0\n                unused_marker = None"),
 # ---- meta (C15-C19) ---------------------------------------------------------------------------------------------
 dict(id="e-ipv4-octet-256", kind="break", props=["C18"], file=ESS,
      old="'5' + (any_digit_up_to_four | '5')", new="'5' + (any_digit_up_to_four | '5' | '6')"),
 dict(id="e-date-day-32", kind="break", props=["C19"], file=ESS,
      old="either_zero_or_one.preceded_by('3')", new="_op.Either('0', '1', '2').preceded_by('3')"),
 dict(id="e-numeral-base-off", kind="break", props=["C17"], file=ESS,
      old="            for i in range(2, base + 1):", new="            for i in range(2, base):"),
 dict(id="e-decimal-dot-unescaped", kind="break", props=["C16"], file=ESS,
      old="pre += \".\" + Numeral(n_min=min_decimal", new="pre += _pre.Pregex('.', escape=False) + Numeral(n_min=min_decimal"),
 dict(id="e-word-min-ignored", kind="break", props=["C17"], file=ESS,
      old="        pre = pre.at_least_at_most(n=min_chars, m=max_chars)\n        super().__init__(pre, is_extensible)\n\n\nclass WordContains",
      new="        pre = pre.at_least_at_most(n=1, m=max_chars)\n        super().__init__(pre, is_extensible)\n\n\nclass WordContains"),
 # ---- meta: argument validation (G10 contracts: for ALL integers, not the sampled invalid tuples) --------------------
 dict(id="v-numeral-nmax-equal-rejected", kind="break", props=["C17"], file=ESS,
      old="        elif n_max < n_min:", new="        elif n_max <= n_min:"),
 # equivalent mutant: with min_chars >= 1 established, max_chars == 0 is still rejected by min_chars > max_chars
 dict(id="v-word-max-zero-accepted", kind="harmless", props=["C17"], file=ESS,
      old="        elif max_chars < 1:", new="        elif max_chars < 0:"),
 dict(id="v-date-format-case-folded", kind="break", props=["C19"], file=ESS,
      old="            if format not in date_formats:", new="            if format.lower() not in date_formats:"),
 dict(id="v-decimal-min-zero-accepted", kind="break", props=["C16"], file=ESS,
      old="        elif min_decimal < 1:", new="        elif min_decimal < 0:"),
 dict(id="v-unsigned-integer-bounds-swapped", kind="break", props=["C15"], file=ESS,
      old="        sign = _pre.Pregex().not_preceded_by(_op.Either('+', '-'))\n        super().__init__(sign, start, end, is_extensible)",
      new="        sign = _pre.Pregex().not_preceded_by(_op.Either('+', '-'))\n        super().__init__(sign, end, start, is_extensible)"),
 dict(id="h-numeral-validation-reordered", kind="harmless", props=["C17"], file=ESS,
      old="        if base < 2 or base > 16:", new="        if base > 16 or base < 2:"),
 # ---- class layer: core operations, operators, constructors (G8b, G9, G9b) ------------------------------------------
 dict(id="c-or-drops-second-chars", kind="break", props=["C07"], file=CLS,
      old="ranges, chars = ranges1.union(ranges2), chars1.union(chars2)", new="ranges, chars = ranges1.union(ranges2), chars1"),
 dict(id="c-sub-skips-char-difference", kind="break", props=["C07"], file=CLS,
      old="        chars1 = chars1.difference(chars2)", new="        chars1 = chars1"),
 dict(id="c-rsub-operand-order", kind="break", props=["C07"], file=CLS,
      old="        return __class__.__sub(pre, self)", new="        return __class__.__sub(self, pre)"),
 dict(id="c-sub-empty-check-dropped", kind="break", props=["C07"], file=CLS,
      old="        if len(result) == 0:\n            raise _ex.EmptyClassException(pre1, pre2)", new="        if len(result) < 0:\n            raise _ex.EmptyClassException(pre1, pre2)"),
 dict(id="h-or-union-commuted", kind="harmless", props=["C07"], file=CLS,
      old="ranges, chars = ranges1.union(ranges2), chars1.union(chars2)", new="ranges, chars = ranges2.union(ranges1), chars2.union(chars1)"),
 dict(id="k-anyfrom-forgets-escape", kind="break", props=["C06"], file=CLS,
      old="        chars = tuple((f\"\\\\{c}\" if c in __class__._to_escape else c) for c in chars)\n        super().__init__(f\"[{''.join(chars)}]\", is_negated=False)",
      new="        super().__init__(f\"[{''.join(chars)}]\", is_negated=False)"),
 # ---- meta: composition (G10b) ------------------------------------------------------------------------------------
 dict(id="w-wordcontains-not-enclosed", kind="break", props=["C17"], file=ESS,
      old="        pre = _op.Enclose(\n            _op.Either(*infix),\n            _qu.Indefinite(_cl.AnyWordChar(is_global=is_global))\n        )",
      new="        pre = _op.Either(*infix) + _qu.Indefinite(_cl.AnyWordChar(is_global=is_global))"),
 dict(id="i-positive-sign-branches-swapped", kind="break", props=["C15"], file=ESS,
      old="        if is_extensible:\n            sign = _pre.Pregex('+')", new="        if not is_extensible:\n            sign = _pre.Pregex('+')"),
 dict(id="d-decimal-missing-integer-part-always-allowed", kind="break", props=["C16"], file=ESS,
      old="        integer_part = UnsignedInteger(start, end, is_extensible)\n        if start == 0:", new="        integer_part = UnsignedInteger(start, end, is_extensible)\n        if start >= 0:"),
 # a refactoring that changes the emitted TEXT but not the language ((?:\\w){n,m}): the chain clause is lost, no alarm
 dict(id="h-word-redundant-group", kind="harmless", props=["C17"], file=ESS,
      old="        pre = pre.at_least_at_most(n=min_chars, m=max_chars)\n        super().__init__(pre, is_extensible)\n\n\nclass WordContains",
      new="        pre = pre.group().at_least_at_most(n=min_chars, m=max_chars)\n        super().__init__(pre, is_extensible)\n\n\nclass WordContains"),
 # ... and one that also changes the language, only for bounds no sampled tuple of the language checks uses
 dict(id="w-word-lower-bound-off-for-long-words", kind="break", props=["C17"], file=ESS,
      old="        pre = pre.at_least_at_most(n=min_chars, m=max_chars)\n        super().__init__(pre, is_extensible)\n\n\nclass WordContains",
      new="        pre = pre.at_least_at_most(n=min_chars + 1 if min_chars > 6 else min_chars, m=max_chars)\n        super().__init__(pre, is_extensible)\n\n\nclass WordContains"),
 # class forms (G7): the class spelling must equal the method spelling
 dict(id="q-optional-class-drops-greedy", kind="break", props=["C04", "C02"], file="src/pregex/core/quantifiers.py",
      old="lambda pre, is_greedy: pre.optional(is_greedy))", new="lambda pre, is_greedy: pre.optional())"),
 dict(id="h-optional-class-via-at-most-one", kind="harmless", props=["C04", "C02"], file="src/pregex/core/quantifiers.py",
      old="lambda pre, is_greedy: pre.optional(is_greedy))", new="lambda pre, is_greedy: pre.at_most(1, is_greedy))"),
 # text layer helpers decided by data independence (F2)
 dict(id="t-split-range-always-rsplit", kind="break", props=["C07"], file=CLS,
      old='return pattern.split("-", 1) if pattern[-1] == "-" else pattern.rsplit("-", 1)', new='return pattern.rsplit("-", 1)'),
 dict(id="h-split-range-count-by-comprehension", kind="harmless", props=["C07"], file=CLS,
      old='count = pattern.count("-")', new='count = len([ch for ch in pattern if ch == "-"])'),
 dict(id="t-range-pattern-forgets-escaped-dash", kind="break", props=["C07"], file=CLS,
      old='r"(?:\\\\(?:\\[|\\]|\\^|\\$|\\-|\\/|[a-z]|\\\\)|[^\\[\\]\\^\\-\\/\\\\])" + \\',
      new='r"(?:\\\\(?:\\[|\\]|\\^|\\$|\\/|[a-z]|\\\\)|[^\\[\\]\\^\\-\\/\\\\])" + \\'),
 # ---- history (C20) ----------------------------------------------------------------------------------------------
 dict(id="s-concat-caches-on-self", kind="break", props=["C20"], file=PRE,
      old="        pattern = self._concat_conditional_group()\n        pre = pre._concat_conditional_group()",
      new="        pattern = self._concat_conditional_group()\n        self.__compiled = None\n        pre = pre._concat_conditional_group()"),
 # ---- exception constructors (G11) and the exported text (F6) -----------------------------------------------------
 dict(id="x-repeat-message-formats-the-pattern", kind="break", props=["C09"], file="src/pregex/core/exceptions.py",
      old='''m = f"Pattern \\"{pre.get_pattern()}\\" is non-repeatable."''',
      new="""m = ('Pattern "' + pre.get_pattern() + '" is non-{}.').format('repeatable')"""),
 dict(id="h-repeat-message-reworded", kind="harmless", props=["C09", "C04"], file="src/pregex/core/exceptions.py",
      old='''m = f"Pattern \\"{pre.get_pattern()}\\" is non-repeatable."''',
      new="""m = 'Pattern "' + pre.get_pattern() + '" cannot be repeated.'"""),
 dict(id="e-export-keeps-escaping-backslash", kind="break", props=["C11"], file=PRE,
      old="""r"\\1\\2", self.__pattern)""", new="""r"\\1\\\\\\2", self.__pattern)"""),
 dict(id="h-export-drop-regex-spelled-with-class", kind="harmless", props=["C11"], file=PRE,
      old="""[^ -&(-~])", r""", new="""[^ -&(-~]{1})", r"""),
]
MUTATIONS = [m for m in MUTATIONS if isinstance(m, dict)]
