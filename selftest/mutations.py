"""Property-breaking and harmless edits for the self-test (see run.py).  file paths are relative to the repo root."""
PRE = "src/pregex/core/pre.py"
CLS = "src/pregex/core/classes.py"
ESS = "src/pregex/meta/essentials.py"

MUTATIONS = [
 dict(id="q-lazy-dropped-at-least", kind="break", props=["C04"], file=PRE,
      old='''return __class__(f"{self._quantify_conditional_group()}{{{n},}}{'' if is_greedy else '?'}", escape=False)''',
      new='''return __class__(f"{self._quantify_conditional_group()}{{{n},}}", escape=False)'''),
 dict(id="q-at-least-becomes-exact", kind="break", props=["C04"], file=PRE,
      old='''{{{n},}}{'' if is_greedy else '?'}''', new='''{{{n}}}{'' if is_greedy else '?'}'''),
 dict(id="q-group-rule-other", kind="break", props=["C04"], file=PRE,
      old="_Type.Other: (False, True, False),", new="_Type.Other: (False, False, False),"),
 dict(id="q-at-most-one-is-two", kind="break", props=["C04"], file=PRE,
      old='''        elif n == 1:
            return self.optional(is_greedy)''', new='''        elif n == 2:
            return self.optional(is_greedy)'''),
 dict(id="q-alam-delegation-drops-greedy", kind="break", props=["C04"], file=PRE,
      old="            return self.at_most(m, is_greedy)", new="            return self.at_most(m)"),
 dict(id="q-exactly-neg-check-late", kind="break", props=["C04"], file=PRE,
      old='''            if n < 0:
                message = "Parameter \\"n\\" can't be negative."
                raise _ex.InvalidArgumentValueException(message)
            if self._get_type() == _Type.Empty:
                return self
            if not self._is_repeatable():
                raise _ex.CannotBeRepeatedException(self)
            return __class__(f"{self._quantify_conditional_group()}{{{n}}}", escape=False)''',
      new='''            if self._get_type() == _Type.Empty:
                return self
            if n < 0:
                message = "Parameter \\"n\\" can't be negative."
                raise _ex.InvalidArgumentValueException(message)
            if not self._is_repeatable():
                raise _ex.CannotBeRepeatedException(self)
            return __class__(f"{self._quantify_conditional_group()}{{{n}}}", escape=False)'''),
 dict(id="h-at-most-zero-spelling", kind="harmless", props=["C04"], file=PRE,
      old='''{{,{n}}}{'' if is_greedy else '?'}''', new='''{{0,{n}}}{'' if is_greedy else '?'}'''),
 dict(id="h-indefinite-spelling", kind="harmless", props=["C04"], file=PRE,
      old='''return __class__(f"{self._quantify_conditional_group()}*{'' if is_greedy else '?'}", escape=False)''',
      new='''return __class__(f"{self._quantify_conditional_group()}{{0,}}{'' if is_greedy else '?'}", escape=False)'''),
]
