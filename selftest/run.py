#!/usr/bin/env python3
"""Self-test by mutation (DESIGN section 10): each entry is a small edit of the library that keeps the test-suite green
(checked with --with-tests) and must make the named check report a VIOLATION (kind 'break'), or is a harmless edit that
must NOT (kind 'harmless').  Works on a scratch worktree under /tmp, removed afterwards.

    python3 selftest/run.py [--only ID[,ID..]] [--prop C04] [--with-tests]
"""
import argparse, json, os, subprocess, sys, shutil
HERE = os.path.dirname(os.path.abspath(__file__))
sys.path.insert(0, HERE)
from mutations import MUTATIONS

WT = f"/tmp/pvc_selftest_wt_{os.getpid()}"      # one scratch worktree per run (several may run at once)


def sh(cmd, **kw):
    return subprocess.run(cmd, shell=True, capture_output=True, text=True, **kw)


def main():
    ap = argparse.ArgumentParser()
    ap.add_argument("--only")
    ap.add_argument("--prop")
    ap.add_argument("--with-tests", action="store_true")
    a = ap.parse_args()
    sh(f"git -C /repo worktree remove --force {WT}; git -C /repo worktree prune")
    r = sh(f"git -C /repo worktree add --detach {WT} HEAD")
    if r.returncode:
        print(r.stderr); sys.exit(2)
    only = set(a.only.split(",")) if a.only else None
    bad = 0
    try:
        for m in MUTATIONS:
            if only and m["id"] not in only:
                continue
            if a.prop and a.prop not in m["props"]:
                continue
            path = os.path.join(WT, m["file"])
            src = open(path, encoding="utf-8").read()
            if src.count(m["old"]) != 1:
                print(f"{m['id']}: SKIP (anchor occurs {src.count(m['old'])} times)"); bad += 1
                continue
            open(path, "w", encoding="utf-8").write(src.replace(m["old"], m["new"]))
            try:
                tests = ""
                if a.with_tests:
                    t = sh(f"cd {WT} && PYTHONPATH={WT}/src /venv/bin/python -W ignore -m pytest -q -p no:cacheprovider 2>&1 | tail -1")
                    tests = t.stdout.strip()
                for prop in m["props"]:
                    if a.prop and prop != a.prop:
                        continue
                    env = dict(os.environ, PVC_REPO=WT, PVC_EVIDENCE_DIR=f"/tmp/pvc_selftest_evidence_{os.getpid()}")
                    c = subprocess.run(["python3-vt", "-m", "pvc.cli", "check", prop, "--tier", "quick"], cwd=os.path.dirname(HERE),
                                       capture_output=True, text=True, env=env)
                    viol = [l for l in c.stdout.splitlines() if l.startswith("VIOLATION")]
                    ok = (c.returncode == 1 and viol) if m["kind"] == "break" else (c.returncode == 0 and not viol)
                    if not ok:
                        bad += 1
                    print(f"{m['id']} [{m['kind']}] {prop}: rc={c.returncode} violations={len(viol)} -> {'OK' if ok else 'UNEXPECTED'} {tests}")
                    if not ok:
                        print("   ", "\n    ".join(c.stdout.splitlines()[-6:]))
            finally:
                open(path, "w", encoding="utf-8").write(src)
    finally:
        sh(f"git -C /repo worktree remove --force {WT}; git -C /repo worktree prune")
        shutil.rmtree(f"/tmp/pvc_selftest_evidence_{os.getpid()}", ignore_errors=True)
    sys.exit(1 if bad else 0)


if __name__ == "__main__":
    main()
