"""argument-kind tags of the contracts (pure data; imported by the verifier and by the native bounded checker)"""
TYPE_NAMES = ["Alternation", "Assertion", "Class", "Empty", "Group", "Other", "Quantifier", "Token"]
_OPK = TYPE_NAMES + ["str0", "str1", "str2", "other"]
# operand tuples of the variadic class forms: none, every single operand kind, every PAIR of operand kinds, and
# representative triples (the arity is enumerated - a stated bound; the kinds within an arity <= 2 are complete)
VARPRE = [""] + _OPK + [a + "|" + b for a in _OPK for b in _OPK] + [
    "Alternation|Empty|Other", "Other|Other|Other", "Assertion|Other|str2", "Other|Alternation|Empty", "str2|Empty|Other",
    "Other|str0|Quantifier", "Group|Class|Token", "other|Other|Other", "Other|Other|other"]

_CHK = ["str0", "str1", "str2", "Token", "Other", "other"]
VARCHARS = [""] + _CHK + [a + "|" + b for a in _CHK for b in _CHK] + ["str1|str1|str1", "str1|Token|str2", "Token|str1|other", "str1|str1|Class"]

KIND_TAGS = {
    "self": TYPE_NAMES,
    "pregex": TYPE_NAMES,
    "pre": TYPE_NAMES + ["str0", "str1", "str2", "other"],
    "dyn": ["int", "bool", "none", "float", "str", "other"],
    "dynint": ["int", "bool", "float", "str", "other", "none"],
    "bool": ["bool"],
    "int": ["int"],
    "optint": ["int", "none"],
    "str": ["str"],
    "optname": ["none", "str", "other", "int"],
    "name": ["str", "other", "int", "none"],
    "text": ["str"],
    "selfc": TYPE_NAMES + [t + "+compiled" for t in TYPE_NAMES],     # the matching / cache API: every inferred type, cache empty or filled
    "rangestrs": ["rangestrs"],
    "intx": ["int", "none", "float", "str", "other"],
    "intnb": ["int", "float", "str", "other"],
    "formats": ["none", "str", "strs:0", "strs:1", "strs:2", "strs:3"],
    "affixes": ["str", "strs:0", "strs:1", "strs:2", "other", "strs+other"],
    "charlist": ["charlist"],
    "varchars": VARCHARS,
    "newobj": ["new"],
    "bracket": ["str"],      # a bracket class text ('[...]', '[^...]') or '.': any string for the verifier, class texts in the pools
    "absranges": ["absranges"], "abschars": ["abschars"],
    "boolc": ["True", "False"],
    "base": ["int_outside_2_16"] + [f"const:{b}" for b in range(2, 17)] + ["bool", "float", "str", "other", "none"],
    "classobj": ["classobj:Class", "classobj:Token"],
    "varpre_small": [""] + _OPK + ["Other|Alternation", "Empty|Other", "Other|other", "str2|Empty|Other", "Assertion|str1"],
    "varpre": VARPRE,
}

